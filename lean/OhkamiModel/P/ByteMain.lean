import OhkamiModel.P.FirstMatch
namespace Ohkami

theorem joinSegs_isEmpty (ss : List Bytes) : (joinSegs ss).isEmpty = ss.isEmpty := by
  cases ss <;> simp [joinSegs]

theorem findStatic_nil_none : ∀ (ks : List BNode), KInv ks → findStatic ks [] = none := by
  intro ks
  induction ks with
  | nil => intro _; rfl
  | cons k ks ih =>
    intro h
    simp only [KInv] at h
    simp only [findStatic]
    rw [if_neg h.2.2.1]
    exact ih h.2.2.2

theorem lookupC_nil (f : Nat) (n : BNode) : lookupC (f + 1) n [] = n.handler.map fun h => (h, []) := by
  simp [lookupC]

-- result of entering a matched child: its handler if the path is used up, else go on below it
def enter (f : Nat) (k : RNode) (rest : List Bytes) : Option (Nat × List Bytes) :=
  if (joinSegs rest).isEmpty then k.handler.map fun h => (h, ([] : List Bytes)) else searchBelow f k (joinSegs rest)

/-- Byte level = segment level, below a node: searching the finalized children with the bytes of the
    remaining path is `lookupC` on the trie node with the remaining segments. -/
theorem searchBelow_eq_lookupC : ∀ (fuel : Nat) (h : Option Nat) (ks : List BNode) (s : Bytes) (ss : List Bytes)
    (p : Seg) (pat : RPat) (hh : Option Nat),
    KInv ks → (ks.map BNode.pat).Nodup → NSK ks → NoSlash s → (∀ x ∈ ss, NoSlash x) → (s :: ss).length < fuel →
    searchBelow fuel (.mk pat hh (sortK (finKids ks))) (joinSegs (s :: ss)) = lookupC fuel (.mk p h ks) (s :: ss) := by
  intro fuel
  induction fuel with
  | zero => intro h ks s ss p pat hh _ _ _ _ _ hf; simp at hf
  | succ f ih =>
    intro h ks s ss p pat hh hk hn hns hs hss hf
    have hf' : ss.length < f := by simp at hf; omega
    obtain ⟨f0, rfl⟩ : ∃ f0, f = f0 + 1 := ⟨f - 1, by omega⟩
    -- the final side
    have hfm := firstMatch_kids ks s ss hk hn hns hs hss
    -- the param alternative, on both sides
    have hparam : (if s ≠ [] then
          (match paramHit ks s ss with
           | none => none
           | some (k, rem, pv) =>
             (match pv with
              | some v => (if rem.isEmpty then k.handler.map fun h => (h, ([] : List Bytes)) else searchBelow (f0 + 1) k rem).map fun (h, ps) => (h, v :: ps)
              | none => (if rem.isEmpty then k.handler.map fun h => (h, ([] : List Bytes)) else searchBelow (f0 + 1) k rem)))
        else none) =
        (if s ≠ [] then
          (match findParam ks with
           | some k => (lookupC (f0 + 1) k ss).map fun (h, ps) => (h, s :: ps)
           | none => none)
        else none) := by
      by_cases hse : s = []
      · simp [hse]
      · simp only [ne_eq, hse, not_false_eq_true, if_true, paramHit]
        cases hfp : findParam ks with
        | none => simp
        | some kp =>
          obtain ⟨hm, hpp⟩ := findParam_mem hfp
          obtain ⟨hip, _, _⟩ := KInv_mem hk hm
          have hnsp := NSK_mem hns hm
          obtain ⟨pp, hp, ksp⟩ := kp
          simp only [BNode.pat] at hpp
          subst hpp
          obtain ⟨hkp, hnp⟩ := TInv_mk.mp hip
          simp only [NS] at hnsp
          simp only [finKid, RNode.handler, joinSegs_isEmpty]
          cases ss with
          | nil => simp [lookupC_nil, BNode.handler]
          | cons s2 ss2 =>
            simp only [List.isEmpty_cons, Bool.false_eq_true, if_false]
            rw [ih hp ksp s2 ss2 .param .param hp hkp hnp hnsp.2 (hss s2 (by simp)) (fun x hx => hss x (by simp [hx])) hf']
    -- unfold both sides
    rw [searchBelow]
    simp only [RNode.kids]
    rw [hfm]
    have hlk : lookupC (f0 + 1 + 1) (BNode.mk p h ks) (s :: ss) =
        (match (if s ≠ [] then (match findStatic ks s with | some k => followChain (ss.length + 1) k ss | none => none) else none) with
         | some (k', ss') => lookupC (f0 + 1) k' ss'
         | none =>
           if s ≠ [] then
             (match findParam ks with
              | some k => (lookupC (f0 + 1) k ss).map fun (h, ps) => (h, s :: ps)
              | none => none)
           else none) := by rfl
    rw [hlk]
    by_cases hse : s = []
    · subst hse
      simp [staticHit, findStatic_nil_none ks hk]
    · simp only [ne_eq, hse, not_false_eq_true, if_true]
      cases hfs : findStatic ks s with
      | none =>
        simp only [staticHit, hfs]
        have := hparam
        simp only [ne_eq, hse, not_false_eq_true, if_true] at this
        exact this
      | some k0 =>
        obtain ⟨hm, hp0⟩ := findStatic_mem hfs
        obtain ⟨hi0, _, _⟩ := KInv_mem hk hm
        have hns0 := NSK_mem hns hm
        obtain ⟨p0, h0, ks0⟩ := k0
        simp only [BNode.pat] at hp0
        subst hp0
        obtain ⟨hk0, hn0⟩ := TInv_mk.mp hi0
        simp only [NS] at hns0
        obtain ⟨hcs, hke, hne, hnse⟩ := chainEnd_inv h0 ks0 hk0 hn0 hns0.2
        have hfc := followChain_chainEnd h0 ks0 (ss.length + 1) (.static s) ss (by omega)
        simp only [staticHit, hfs]
        by_cases hpre : (chainEnd h0 ks0).1.isPrefixOf ss = true
        · -- the chain matches: descend into the compressed node
          simp only [hpre, if_true] at hfc ⊢
          cases hfo : followChain (ss.length + 1) (BNode.mk (Seg.static s) h0 ks0) ss with
          | none => rw [hfo] at hfc; simp at hfc
          | some r =>
            rw [hfo] at hfc
            simp only [Option.map_some, Option.some.injEq, Prod.mk.injEq] at hfc
            obtain ⟨hrh, hrk, hrs⟩ := hfc
            obtain ⟨k', ss'⟩ := r
            simp only at hrh hrk hrs
            subst hrs
            simp only
            rw [lookupC_body (f0 + 1) k' (.mk .param (chainEnd h0 ks0).2.1 (chainEnd h0 ks0).2.2) _ hrh hrk]
            rw [finKid_static]
            simp only [RNode.handler, joinSegs_isEmpty]
            cases hdr : List.drop (chainEnd h0 ks0).1.length ss with
            | nil => simp [lookupC_nil, BNode.handler]
            | cons s2 ss2 =>
              simp only [List.isEmpty_cons, Bool.false_eq_true, if_false]
              have hmem : ∀ x ∈ s2 :: ss2, NoSlash x := by
                intro x hx
                rw [← hdr] at hx
                exact hss x (List.mem_of_mem_drop hx)
              have hlen : (s2 :: ss2).length < f0 + 1 := by
                have : (s2 :: ss2).length ≤ ss.length := by rw [← hdr]; simp
                omega
              exact ih (chainEnd h0 ks0).2.1 (chainEnd h0 ks0).2.2 s2 ss2 .param _ _ hke hne hnse
                (hmem s2 (by simp)) (fun x hx => hmem x (by simp [hx])) hlen
        · -- the chain does not match: the static child is skipped, the param child is tried
          simp only [hpre, Bool.false_eq_true, if_false] at hfc ⊢
          have hfo : followChain (ss.length + 1) (BNode.mk (Seg.static s) h0 ks0) ss = none := by
            cases hx : followChain (ss.length + 1) (BNode.mk (Seg.static s) h0 ks0) ss with
            | none => rfl
            | some r => rw [hx] at hfc; simp at hfc
          rw [hfo]
          have := hparam
          simp only [ne_eq, hse, not_false_eq_true, if_true] at this
          dsimp only
          exact this

end Ohkami
