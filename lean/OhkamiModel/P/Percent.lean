import OhkamiModel.P.Hdrs
/-! percent-encoding (NON_ALPHANUMERIC set) and percent-decoding, with the round trip (shared by C07, C09, C11). -/
namespace Ohkami.Percent

def isAlnum (b : UInt8) : Bool := (48 ≤ b && b ≤ 57) || (65 ≤ b && b ≤ 90) || (97 ≤ b && b ≤ 122)
def PCT : UInt8 := 37

-- upper-case hex digit, as `percent_encoding` prints
def hexU (n : Nat) : UInt8 := if n < 10 then (48 + n).toUInt8 else (55 + n).toUInt8
-- `percent_decode` accepts both cases
def unhex (b : UInt8) : Option Nat :=
  if 48 ≤ b ∧ b ≤ 57 then some (b.toNat - 48)
  else if 65 ≤ b ∧ b ≤ 70 then some (b.toNat - 55)
  else if 97 ≤ b ∧ b ≤ 102 then some (b.toNat - 87)
  else none

def encode : Bytes → Bytes
  | [] => []
  | b :: bs => if isAlnum b then b :: encode bs else PCT :: hexU (b.toNat / 16) :: hexU (b.toNat % 16) :: encode bs

-- `%XY` with two hex digits is a byte; anything else is copied (a lone `%` stays)
def decode : Bytes → Bytes
  | [] => []
  | [b] => [b]
  | [b, c] => [b, c]
  | b :: tl@(h :: l :: rest) =>
    if b = PCT then
      match unhex h, unhex l with
      | some x, some y => (x * 16 + y).toUInt8 :: decode rest
      | _, _ => b :: decode tl
    else b :: decode tl

theorem unhex_hexU : ∀ n : Fin 16, unhex (hexU n.val) = some n.val := by decide

theorem byte_split : ∀ b : UInt8, ((b.toNat / 16) * 16 + b.toNat % 16).toUInt8 = b := by
  intro b
  have : b.toNat / 16 * 16 + b.toNat % 16 = b.toNat := by omega
  rw [this]
  cases b; simp [Nat.toUInt8, UInt8.toNat]

theorem pct_not_alnum : isAlnum PCT = false := by decide

theorem decode_cons_ne (b : UInt8) (bs : Bytes) (hb : b ≠ PCT) : decode (b :: bs) = b :: decode bs := by
  match bs with
  | [] => simp [decode]
  | [c] =>
    by_cases hc : c = PCT <;> simp [decode]
  | h :: l :: rest => rw [decode, if_neg hb]

/-- decoding undoes encoding, for every byte string -/
theorem decode_encode : ∀ bs : Bytes, decode (encode bs) = bs := by
  intro bs
  induction bs with
  | nil => simp [encode, decode]
  | cons b bs ih =>
    simp only [encode]
    by_cases ha : isAlnum b = true
    · have hb : b ≠ PCT := by intro e; rw [e, pct_not_alnum] at ha; simp at ha
      simp only [ha, if_true]
      rw [decode_cons_ne b _ hb, ih]
    · have hlt : b.toNat < 256 := b.toNat_lt
      have h1 := unhex_hexU ⟨b.toNat / 16, by omega⟩
      have h2 := unhex_hexU ⟨b.toNat % 16, by omega⟩
      simp only at h1 h2
      simp only [ha, Bool.false_eq_true, if_false]
      rw [decode, if_pos rfl]
      simp only [h1, h2, ih, byte_split]

/-- the encoder's output contains only alphanumerics, `%` and upper-case hex digits -/
theorem encode_alphabet : ∀ (bs : Bytes) (x : UInt8), x ∈ encode bs → isAlnum x = true ∨ x = PCT := by
  intro bs
  induction bs with
  | nil => intro x h; simp [encode] at h
  | cons b bs ih =>
    intro x h
    simp only [encode] at h
    by_cases ha : isAlnum b = true
    · simp only [ha, if_true, List.mem_cons] at h
      rcases h with rfl | h
      · exact Or.inl ha
      · exact ih x h
    · simp only [ha, Bool.false_eq_true, if_false, List.mem_cons] at h
      have hh : ∀ n : Fin 16, isAlnum (hexU n.val) = true := by decide
      have hlt : b.toNat < 256 := b.toNat_lt
      rcases h with rfl | rfl | rfl | h
      · exact Or.inr rfl
      · exact Or.inl (hh ⟨b.toNat / 16, by omega⟩)
      · exact Or.inl (hh ⟨b.toNat % 16, by omega⟩)
      · exact ih x h

end Ohkami.Percent
