import OhkamiModel.P.B64
namespace Ohkami.B64

theorem alphabet_nodup : alphabet.Nodup := by decide +kernel
theorem alphabet_length : alphabet.length = 64 := by decide +kernel
theorem pad_not_in : pad ∉ alphabet := by decide +kernel

theorem decChar_encChar (n : Nat) (h : n < 64) : decChar (encChar n) = some n := by
  have : ∀ m : Fin 64, decChar (encChar m.val) = some m.val := by decide +kernel
  exact this ⟨n, h⟩

theorem encChar_ne_pad (n : Nat) (h : n < 64) : encChar n ≠ pad := by
  have : ∀ m : Fin 64, encChar m.val ≠ pad := by decide +kernel
  exact this ⟨n, h⟩

end Ohkami.B64

namespace Ohkami.B64
theorem sextets_roundtrip (a b c : Nat) (ha : a < 256) (hb : b < 256) (hc : c < 256) :
    let n := a * 65536 + b * 256 + c
    (n / 262144) * 4 + (n / 4096 % 64) / 16 = a ∧
    (n / 4096 % 64) % 16 * 16 + (n / 64 % 64) / 4 = b ∧
    (n / 64 % 64) % 4 * 64 + n % 64 = c ∧
    n / 262144 < 64 := by
  intro n
  simp only [n]
  omega

theorem toUInt8_toNat (a : UInt8) : a.toNat.toUInt8 = a := by
  cases a; simp [Nat.toUInt8, UInt8.toNat]

end Ohkami.B64
