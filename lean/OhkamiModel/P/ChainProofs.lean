import OhkamiModel.P.Chain
namespace Ohkami

def WFRoutes (rs : List (Route × Nat)) : Prop := ∀ rh ∈ rs, Seg.static [] ∉ rh.1

theorem WFRoutes_stepStatic {rs : List (Route × Nat)} (h : WFRoutes rs) (s : Bytes) : WFRoutes (stepStatic rs s) := by
  intro ⟨t, hh⟩ hm
  have := h _ (mem_stepStatic.mp hm)
  intro hc
  exact this (by simp [hc])

theorem WFRoutes_stepParam {rs : List (Route × Nat)} (h : WFRoutes rs) : WFRoutes (stepParam rs) := by
  intro ⟨t, hh⟩ hm
  have := h _ (mem_stepParam.mp hm)
  intro hc
  exact this (by simp [hc])

/-- when `forcedNext rs = some c`, every route in `rs` starts with `static c` -/
theorem forcedNext_spec {rs : List (Route × Nat)} {c : Bytes} (h : forcedNext rs = some c) :
    ∀ rh ∈ rs, ∃ t, rh.1 = .static c :: t := by
  unfold forcedNext at h
  split at h
  · simp at h
  next c0 t0 h0 rest =>
    split at h
    next hall =>
      simp at h; subst h
      intro rh hm
      have := List.all_eq_true.mp hall rh hm
      split at this
      next c' t' heq => exact ⟨t', by rw [heq]; simp at this; rw [this]⟩
      next => simp at this
    next => simp at h
  · simp at h

/-- a successful chain match consumed a forced chain -/
theorem chainMatch_spec : ∀ (fuel : Nat) (rs : List (Route × Nat)) (ss : List Bytes) (rs' : List (Route × Nat)) (ss' : List Bytes),
    chainMatch fuel rs ss = some (rs', ss') →
    ∃ chain : List Bytes, ss = chain ++ ss' ∧
      (∀ t h, (t, h) ∈ rs' ↔ (chain.map Seg.static ++ t, h) ∈ rs) ∧
      (∀ rh ∈ rs, ∃ t, rh.1 = chain.map Seg.static ++ t) := by
  intro fuel
  induction fuel with
  | zero =>
    intro rs ss rs' ss' h
    simp [chainMatch] at h
    obtain ⟨rfl, rfl⟩ := h
    exact ⟨[], by simp, by simp, by intro rh _; exact ⟨rh.1, by simp⟩⟩
  | succ f ih =>
    intro rs ss rs' ss' h
    simp only [chainMatch] at h
    split at h
    next hnone =>
      simp at h
      obtain ⟨rfl, rfl⟩ := h
      exact ⟨[], by simp, by simp, by intro rh _; exact ⟨rh.1, by simp⟩⟩
    next c hc =>
      split at h
      next s' ss'' =>
        split at h
        next heq =>
          subst heq
          obtain ⟨chain, h1, h2, h3⟩ := ih _ _ _ _ h
          refine ⟨s' :: chain, by simp [h1], ?_, ?_⟩
          · intro t hh
            rw [h2 t hh, mem_stepStatic]
            simp
          · intro rh hm
            obtain ⟨t, ht⟩ := forcedNext_spec hc rh hm
            have hm' : (t, rh.2) ∈ stepStatic rs s' := by
              rw [mem_stepStatic]; rw [← ht]; exact hm
            obtain ⟨t', ht'⟩ := h3 _ hm'
            exact ⟨t', by rw [ht]; simp at ht'; simp [ht']⟩
        next => simp at h
      next => simp at h

theorem Matches_static_chain {chain : List Bytes} (hne : ∀ c ∈ chain, c ≠ []) {r : Route} {segs ps : List Bytes}
    (h : Matches r segs ps) : Matches (chain.map Seg.static ++ r) (chain ++ segs) ps := by
  induction chain with
  | nil => simpa using h
  | cons c chain ih =>
    simp only [List.map_cons, List.cons_append]
    exact Matches.static c (hne c (by simp)) (ih (fun x hx => hne x (by simp [hx])))

theorem Matches_of_static_chain {chain : List Bytes} {t : Route} {segs ps : List Bytes}
    (h : Matches (chain.map Seg.static ++ t) segs ps) : ∃ segs', segs = chain ++ segs' ∧ Matches t segs' ps := by
  induction chain generalizing segs with
  | nil => exact ⟨segs, by simp, by simpa using h⟩
  | cons c chain ih =>
    simp only [List.map_cons, List.cons_append] at h
    cases h with
    | static s hs hm =>
      obtain ⟨segs', h1, h2⟩ := ih hm
      exact ⟨segs', by simp [h1], h2⟩

theorem MoreStatic_static_chain (chain : List Bytes) {r r' : Route} (h : MoreStatic r r') :
    MoreStatic (chain.map Seg.static ++ r) (chain.map Seg.static ++ r') := by
  induction chain with
  | nil => simpa using h
  | cons c chain ih => simp only [List.map_cons, List.cons_append]; exact MoreStatic.static c _ _ ih


/-- a chain match can only fail if no route below the static child matches the rest of the path -/
theorem chainMatch_none : ∀ (fuel : Nat) (rs : List (Route × Nat)) (ss : List Bytes),
    chainMatch fuel rs ss = none → ∀ t h ps, (t, h) ∈ rs → ¬ Matches t ss ps := by
  intro fuel
  induction fuel with
  | zero => intro rs ss h; simp [chainMatch] at h
  | succ f ih =>
    intro rs ss h t hh ps hm hM
    simp only [chainMatch] at h
    split at h
    next => simp at h
    next c hc =>
      obtain ⟨t', ht'⟩ := forcedNext_spec hc _ hm
      simp only at ht'
      subst ht'
      split at h
      next s' ss'' =>
        cases hM with
        | static s hs hM' =>
          simp only [if_true] at h
          exact ih _ _ h t' hh ps (mem_stepStatic.mpr hm) hM'
      next => cases hM

theorem chain_hit_sound : ∀ (fuel : Nat) (rs : List (Route × Nat)) (segs : List Bytes) (h : Nat) (ps : List Bytes),
    WFRoutes rs → greedyChain fuel rs segs = some (h, ps) →
    ∃ r, (r, h) ∈ rs ∧ Matches r segs ps ∧
      ∀ r' h' ps', (r', h') ∈ rs → Matches r' segs ps' → MoreStatic r r' := by
  intro fuel
  induction fuel with
  | zero => intro rs segs h ps _ hg; simp [greedyChain] at hg
  | succ f ih =>
    intro rs segs h ps hwf hg
    cases segs with
    | nil =>
      simp only [greedyChain, Option.map_eq_some_iff] at hg
      obtain ⟨⟨r, h0⟩, hfind, heq⟩ := hg
      simp at heq
      obtain ⟨rfl, rfl⟩ := heq
      have hm := List.mem_of_find?_eq_some hfind
      have hr : r = [] := by simpa using List.find?_some hfind
      subst hr
      refine ⟨[], hm, Matches.nil, ?_⟩
      intro r' h' ps' _ hM
      cases hM
      exact MoreStatic.refl _
    | cons s ss =>
      simp only [greedyChain] at hg
      split at hg
      next rs' ss' hvia =>
        -- static child taken, chain matched
        split at hvia
        next hc =>
          obtain ⟨chain, h1, h2, h3⟩ := chainMatch_spec _ _ _ _ _ hvia
          have hwf1 : WFRoutes (stepStatic rs s) := WFRoutes_stepStatic hwf s
          have hwf' : WFRoutes rs' := by
            intro ⟨t, hh⟩ hm hc'
            have := hwf1 _ ((h2 t hh).mp hm)
            exact this (by simp [hc'])
          obtain ⟨r0, hr0, hM0, hbest⟩ := ih _ _ _ _ hwf' hg
          have hmem1 : (chain.map Seg.static ++ r0, h) ∈ stepStatic rs s := (h2 r0 h).mp hr0
          have hmem : (Seg.static s :: (chain.map Seg.static ++ r0), h) ∈ rs := mem_stepStatic.mp hmem1
          have hchain_ne : ∀ c ∈ chain, c ≠ [] := by
            intro c hcm hce
            have := hwf1 _ hmem1
            apply this
            simp only [List.mem_append, List.mem_map]
            exact Or.inl ⟨c, hcm, by rw [hce]⟩
          refine ⟨_, hmem, ?_, ?_⟩
          · rw [h1]; exact Matches.static s hc.1 (Matches_static_chain hchain_ne hM0)
          · intro r' h' ps' hm' hM'
            cases hM' with
            | static s0 hs0 hMt =>
              rename_i t'
              have hmt : (t', h') ∈ stepStatic rs s := mem_stepStatic.mpr hm'
              obtain ⟨t'', ht''⟩ := h3 _ hmt
              simp only at ht''
              subst ht''
              obtain ⟨segs', he, hMt''⟩ := Matches_of_static_chain hMt
              have hss : segs' = ss' := by
                rw [h1] at he; exact (List.append_cancel_left he).symm
              subst hss
              have := hbest t'' h' ps' ((h2 t'' h').mpr hmt) hMt''
              exact MoreStatic.static s _ _ (MoreStatic_static_chain chain this)
            | param s0 hs0 hMt => exact MoreStatic.here _ _ _
        next => simp at hvia
      next hvia =>
        split at hg
        next hp =>
          simp only [Option.map_eq_some_iff] at hg
          obtain ⟨⟨h0, ps0⟩, hg0, heq⟩ := hg
          simp at heq
          obtain ⟨rfl, rfl⟩ := heq
          obtain ⟨r0, hr0, hM0, hbest⟩ := ih _ _ _ _ (WFRoutes_stepParam hwf) hg0
          refine ⟨.param :: r0, mem_stepParam.mp hr0, Matches.param s hp.1 hM0, ?_⟩
          intro r' h' ps' hm' hM'
          cases hM' with
          | static s0 hs0 hMt =>
            rename_i t'
            -- a matching route through the static child: the chain could not have failed
            exfalso
            have hmt : (t', h') ∈ stepStatic rs s := mem_stepStatic.mpr hm'
            have hne : stepStatic rs s ≠ [] := by intro he; rw [he] at hmt; simp at hmt
            simp only [hs0, hne, ne_eq, not_false_eq_true, and_self, if_true] at hvia
            exact chainMatch_none _ _ _ hvia t' h' ps' hmt hMt
          | param s0 hs0 hMt =>
            rename_i t' psx
            exact MoreStatic.param _ _ (hbest t' h' _ (mem_stepParam.mpr hm') hMt)
        next => simp at hg

end Ohkami
