import OhkamiModel.P.ByteMain
namespace Ohkami

theorem followChain_len : ∀ (fuel : Nat) (k : BNode) (ss : List Bytes) (k' : BNode) (ss' : List Bytes),
    followChain fuel k ss = some (k', ss') → ss'.length ≤ ss.length := by
  intro fuel
  induction fuel with
  | zero => intro k ss k' ss' h; simp [followChain] at h; rw [h.2]; exact Nat.le_refl _
  | succ f ih =>
    intro k ss k' ss' h
    unfold followChain at h
    split at h
    next c h' ks' =>
      split at h
      next s' ss'' =>
        split at h
        next => have := ih _ _ _ _ h; simp; omega
        next => simp at h
      next => simp at h
    next => simp at h; rw [h.2]; exact Nat.le_refl _

/-- with enough fuel the result of `lookupC` does not depend on the fuel -/
theorem lookupC_fuel : ∀ (f f' : Nat) (n : BNode) (segs : List Bytes), segs.length < f → segs.length < f' →
    lookupC f n segs = lookupC f' n segs := by
  intro f
  induction f with
  | zero => intro f' n segs h; omega
  | succ f ih =>
    intro f' n segs h h'
    cases f' with
    | zero => omega
    | succ g =>
      cases segs with
      | nil => simp [lookupC]
      | cons s ss =>
        simp only [List.length_cons] at h h'
        simp only [lookupC]
        have hp : (match findParam n.kids with
              | some k => Option.map (fun (x : Nat × List Bytes) => (x.1, s :: x.2)) (lookupC f k ss)
              | none => none) = (match findParam n.kids with
              | some k => Option.map (fun (x : Nat × List Bytes) => (x.1, s :: x.2)) (lookupC g k ss)
              | none => none) := by
          cases findParam n.kids with
          | none => rfl
          | some k => simp only; rw [ih g k ss (by omega) (by omega)]
        by_cases hs : s = []
        · simp [hs]
        · simp only [ne_eq, hs, not_false_eq_true, if_true]
          cases hfs : findStatic n.kids s with
          | none => simp only; exact hp
          | some k =>
            simp only
            cases hfc : followChain (ss.length + 1) k ss with
            | none => simp only; exact hp
            | some r =>
              obtain ⟨k', ss'⟩ := r
              have := followChain_len _ _ _ _ _ hfc
              simp only
              exact ih g k' ss' (by omega) (by omega)

end Ohkami

namespace Ohkami

theorem chainEnd_nocompress (h : Option Nat) (ks : List BNode)
    (hc : ¬ ∃ c h' ks', h = none ∧ ks = [.mk (.static c) h' ks']) : chainEnd h ks = ([], h, ks) := by
  cases h with
  | some x => rw [chainEnd]
  | none =>
    cases ks with
    | nil => rw [chainEnd]
    | cons k1 rest =>
      cases rest with
      | cons k2 rest2 => rw [chainEnd]
      | nil =>
        obtain ⟨p1, h1, ks1⟩ := k1
        cases p1 with
        | param => rw [chainEnd]
        | static c => exact absurd ⟨c, h1, ks1, rfl, rfl⟩ hc

/-- C01, single application: the byte-level search of the finalized router on the path `/s1/s2/…`
    is the segment-level look-up on the registration trie — hence (B.13, B.15) `greedyChain` on its routes. -/
theorem searchTop_eq_lookupC (fuel : Nat) (p : Seg) (h : Option Nat) (ks : List BNode) (segs : List Bytes)
    (hi : TInv (.mk p h ks)) (hns : NSK ks) (hss : ∀ x ∈ segs, NoSlash x) (hf : segs.length < fuel) :
    searchTop fuel (finalize (.mk p h ks)) (joinSegs segs) = lookupC fuel (.mk p h ks) segs := by
  obtain ⟨hk, hn⟩ := TInv_mk.mp hi
  obtain ⟨f, rfl⟩ : ∃ f, fuel = f + 1 := ⟨fuel - 1, by omega⟩
  have hfin : finalize (.mk p h ks) =
      .mk (.static (joinSegs (chainEnd h ks).1)) (chainEnd h ks).2.1 (sortK (finKids (chainEnd h ks).2.2)) := by
    have := finStatic_eq [] h ks
    simpa [finalize, joinSegs] using this
  rw [hfin]
  by_cases hc : ∃ c h' ks', h = none ∧ ks = [.mk (.static c) h' ks']
  · -- the root is compressed with its single static child
    obtain ⟨c, h', ks', rfl, rfl⟩ := hc
    obtain ⟨hi1, _, hcne⟩ := KInv_mem hk (k := BNode.mk (Seg.static c) h' ks') (by simp)
    obtain ⟨hk1, hn1⟩ := TInv_mk.mp hi1
    have hns1 : NS (BNode.mk (Seg.static c) h' ks') := NSK_mem hns (by simp)
    simp only [NS] at hns1
    obtain ⟨hcs, hke, hne, hnse⟩ := chainEnd_inv h' ks' hk1 hn1 hns1.2
    have hce : chainEnd none [BNode.mk (Seg.static c) h' ks'] = (c :: (chainEnd h' ks').1, (chainEnd h' ks').2) := by
      rw [chainEnd]
    rw [hce]
    simp only [searchTop, RNode.pat, takeF, RNode.handler]
    rw [takeStatic_chain (c :: (chainEnd h' ks').1) segs
          (by intro x hx; simp only [List.mem_cons] at hx; rcases hx with rfl | hx; exact hns1.1; exact hcs x hx) hss]
    cases segs with
    | nil => simp [List.isPrefixOf, lookupC, BNode.handler]
    | cons s ss =>
      have hlk : lookupC (f + 1) (BNode.mk p none [BNode.mk (Seg.static c) h' ks']) (s :: ss) =
          (match (if s ≠ [] then (match findStatic [BNode.mk (Seg.static c) h' ks'] s with | some k => followChain (ss.length + 1) k ss | none => none) else none) with
           | some (k', ss') => lookupC f k' ss'
           | none =>
             if s ≠ [] then
               (match findParam [BNode.mk (Seg.static c) h' ks'] with
                | some k => (lookupC f k ss).map fun (h, ps) => (h, s :: ps)
                | none => none)
             else none) := by rfl
      rw [hlk]
      have hfp : findParam [BNode.mk (Seg.static c) h' ks'] = none := by simp [findParam, BNode.pat]
      rw [hfp]
      by_cases hcs' : c = s
      · subst hcs'
        have hcne' : c ≠ [] := by intro e; apply hcne; simp [BNode.pat, e]
        have hfs : findStatic [BNode.mk (Seg.static c) h' ks'] c = some (BNode.mk (Seg.static c) h' ks') := by
          simp [findStatic, BNode.pat]
        simp only [ne_eq, hcne', not_false_eq_true, if_true, hfs, List.isPrefixOf, beq_self_eq_true, Bool.true_and]
        have hfc := followChain_chainEnd h' ks' (ss.length + 1) (.static c) ss (by omega)
        by_cases hpre : (chainEnd h' ks').1.isPrefixOf ss = true
        · simp only [hpre, if_true] at hfc ⊢
          cases hfo : followChain (ss.length + 1) (BNode.mk (Seg.static c) h' ks') ss with
          | none => rw [hfo] at hfc; simp at hfc
          | some r =>
            rw [hfo] at hfc
            simp only [Option.map_some, Option.some.injEq, Prod.mk.injEq] at hfc
            obtain ⟨hrh, hrk, hrs⟩ := hfc
            obtain ⟨k', ss'⟩ := r
            simp only at hrh hrk hrs
            subst hrs
            simp only [Option.map_some, List.length_cons, List.drop_succ_cons, joinSegs_isEmpty]
            rw [lookupC_body f k' (.mk .param (chainEnd h' ks').2.1 (chainEnd h' ks').2.2) _ hrh hrk]
            have hf1 : 1 ≤ f := by simp at hf; omega
            obtain ⟨f1, rfl⟩ : ∃ f1, f = f1 + 1 := ⟨f - 1, by omega⟩
            cases hdr : List.drop (chainEnd h' ks').1.length ss with
            | nil => simp [lookupC_nil, BNode.handler]
            | cons s2 ss2 =>
              simp only [List.isEmpty_cons, Bool.false_eq_true, if_false]
              have hmem : ∀ x ∈ s2 :: ss2, NoSlash x := by
                intro x hx
                rw [← hdr] at hx
                exact hss x (by simp [List.mem_of_mem_drop hx])
              have hlen : (s2 :: ss2).length ≤ ss.length := by rw [← hdr]; simp
              rw [searchBelow_eq_lookupC (f1 + 1 + 1) (chainEnd h' ks').2.1 (chainEnd h' ks').2.2 s2 ss2 .param _ _ hke hne hnse
                    (hmem s2 (by simp)) (fun x hx => hmem x (by simp [hx])) (by simp at hf; omega)]
              exact lookupC_fuel _ _ _ _ (by simp at hf; omega) (by simp at hf; omega)
        · simp only [hpre, Bool.false_eq_true, if_false] at hfc ⊢
          have hfo : followChain (ss.length + 1) (BNode.mk (Seg.static c) h' ks') ss = none := by
            cases hx : followChain (ss.length + 1) (BNode.mk (Seg.static c) h' ks') ss with
            | none => rfl
            | some r => rw [hx] at hfc; simp at hfc
          rw [hfo]; simp
      · have hfs : findStatic [BNode.mk (Seg.static c) h' ks'] s = none := by
          have : ¬ (Seg.static c = Seg.static s) := fun e => hcs' (Seg.static.inj e)
          simp [findStatic, BNode.pat, this]
        simp [List.isPrefixOf, hcs', hfs]
  · -- no compression at the root
    rw [chainEnd_nocompress h ks hc]
    simp only [searchTop, RNode.pat, takeF, RNode.handler, joinSegs]
    rw [takeStatic_nil_slashy _ (slashy_joinSegs segs)]
    simp only [Option.map_some, joinSegs_isEmpty]
    cases segs with
    | nil => simp [lookupC_nil, BNode.handler]
    | cons s ss =>
      simp only [List.isEmpty_cons, Bool.false_eq_true, if_false]
      exact searchBelow_eq_lookupC (f + 1) h ks s ss p _ _ hk hn hns (hss s (by simp)) (fun x hx => hss x (by simp [hx])) hf

end Ohkami
