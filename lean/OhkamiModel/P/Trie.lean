import OhkamiModel.P.ChainPerm
namespace Ohkami

/-! Segment-level trie (router/base.rs `Node`), its routes, and the look-up that single-child compression
    + greedy descent compute (segment-level image of router/final.rs). -/

inductive BNode where
  | mk (pat : Seg) (handler : Option Nat) (kids : List BNode)
deriving Repr

namespace BNode
def pat : BNode → Seg | mk p _ _ => p
def handler : BNode → Option Nat | mk _ h _ => h
def kids : BNode → List BNode | mk _ _ k => k
end BNode

mutual
def routesOf : BNode → List (Route × Nat)
  | .mk _ h ks => (match h with | some x => [([], x)] | none => []) ++ routesOfKids ks
def routesOfKids : List BNode → List (Route × Nat)
  | [] => []
  | k :: ks => (routesOf k).map (fun rh => (k.pat :: rh.1, rh.2)) ++ routesOfKids ks
end

def findStatic : List BNode → Bytes → Option BNode
  | [], _ => none
  | k :: ks, s => if k.pat = .static s then some k else findStatic ks s

def findParam : List BNode → Option BNode
  | [] => none
  | k :: ks => if k.pat = .param then some k else findParam ks

-- forced chain below a static child: no handler, exactly one child, and that child is static
def followChain : Nat → BNode → List Bytes → Option (BNode × List Bytes)
  | 0, k, ss => some (k, ss)
  | fuel + 1, k, ss =>
    match k with
    | .mk _ none [.mk (.static c) h' ks'] =>
      (match ss with
       | s' :: ss' => if s' = c then followChain fuel (.mk (.static c) h' ks') ss' else none
       | [] => none)
    | _ => some (k, ss)

def lookupC : Nat → BNode → List Bytes → Option (Nat × List Bytes)
  | 0, _, _ => none
  | _ + 1, n, [] => n.handler.map fun h => (h, [])
  | fuel + 1, n, s :: ss =>
    let viaStatic : Option (BNode × List Bytes) :=
      if s ≠ [] then
        match findStatic n.kids s with
        | some k => followChain (ss.length + 1) k ss
        | none => none
      else none
    match viaStatic with
    | some (k', ss') => lookupC fuel k' ss'
    | none =>
      if s ≠ [] then
        match findParam n.kids with
        | some k => (lookupC fuel k ss).map fun (h, ps) => (h, s :: ps)
        | none => none
      else none

/-! invariant of tries built by registration -/
mutual
def TInv : BNode → Prop
  | .mk _ _ ks => KInv ks ∧ (ks.map BNode.pat).Nodup
def KInv : List BNode → Prop
  | [] => True
  | k :: ks => TInv k ∧ routesOf k ≠ [] ∧ k.pat ≠ .static [] ∧ KInv ks
end

-- example: the two tries of the router experiment
def tAB : BNode := .mk .param none [.mk (.static [97]) none [.mk (.static [98]) (some 1) []], .mk .param none [.mk (.static [99]) (some 2) []]]
example : lookupC 5 tAB [[97], [99]] = some (2, [[97]]) := by decide
example : routesOf tAB = ex1 := by decide

end Ohkami
