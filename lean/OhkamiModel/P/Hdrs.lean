import OhkamiModel.Basic
/-! Prototype: byte_reader-style primitives and a header-block round trip (C02 calibration). -/
namespace Ohkami.P

def CR : UInt8 := 13
def LF : UInt8 := 10
def COLON : UInt8 := 58
def SP : UInt8 := 32

def readWhile (p : UInt8 → Bool) : Bytes → Bytes × Bytes
  | [] => ([], [])
  | b :: bs => if p b then let (a, r) := readWhile p bs; (b :: a, r) else ([], b :: bs)

def consume (tok : Bytes) (bs : Bytes) : Option Bytes :=
  if tok.isPrefixOf bs then some (bs.drop tok.length) else none

inductive Out (α : Type) where
  | ok (a : α) | bad
deriving Repr

-- header loop of Request::read (names/values kept raw)
def parseHeaders : Nat → Bytes → Out (List (Bytes × Bytes) × Bytes)
  | 0, _ => .bad
  | fuel + 1, bs =>
    match consume [CR, LF] bs with
    | some rest => .ok ([], rest)
    | none =>
      let (k, r1) := readWhile (· != COLON) bs
      match consume [COLON, SP] r1 with
      | none => .bad
      | some r2 =>
        let (v, r3) := readWhile (· != CR) r2
        match consume [CR, LF] r3 with
        | none => .bad
        | some r4 =>
          match parseHeaders fuel r4 with
          | .ok (hs, rest) => .ok ((k, v) :: hs, rest)
          | .bad => .bad

def encodeHeaders (hs : List (Bytes × Bytes)) : Bytes :=
  (hs.map fun (k, v) => k ++ [COLON, SP] ++ v ++ [CR, LF]).flatten

def WFHeader (kv : Bytes × Bytes) : Prop :=
  kv.1 ≠ [] ∧ (∀ b ∈ kv.1, b ≠ COLON ∧ b ≠ CR) ∧ (∀ b ∈ kv.2, b ≠ CR)

theorem readWhile_append (p : UInt8 → Bool) (a : Bytes) (s : UInt8) (rest : Bytes)
    (ha : ∀ b ∈ a, p b = true) (hs : p s = false) :
    readWhile p (a ++ s :: rest) = (a, s :: rest) := by
  induction a with
  | nil => simp [readWhile, hs]
  | cons b a ih =>
    have hb : p b = true := ha b (by simp)
    have := ih (fun x hx => ha x (by simp [hx]))
    simp [readWhile, hb, this]

theorem consume_append (tok rest : Bytes) : consume tok (tok ++ rest) = some rest := by
  simp [consume]

theorem parseHeaders_encode (hs : List (Bytes × Bytes)) (hwf : ∀ kv ∈ hs, WFHeader kv) (rest : Bytes) :
    parseHeaders (hs.length + 1) (encodeHeaders hs ++ [CR, LF] ++ rest) = .ok (hs, rest) := by
  induction hs with
  | nil => simp [parseHeaders, encodeHeaders, consume]
  | cons kv hs ih =>
    obtain ⟨k, v⟩ := kv
    have hkv := hwf (k, v) (by simp)
    obtain ⟨hk0, hk, hv⟩ := hkv
    have ih' := ih (fun x hx => hwf x (by simp [hx]))
    -- the block does not start with CRLF because the name is non-empty and has no CR
    obtain ⟨k0, ks, rfl⟩ : ∃ k0 ks, k = k0 :: ks := by
      cases k with
      | nil => exact absurd rfl hk0
      | cons a b => exact ⟨a, b, rfl⟩
    have hk0cr : k0 ≠ CR := (hk k0 (by simp)).2
    have e1 : encodeHeaders ((k0 :: ks, v) :: hs) ++ [CR, LF] ++ rest
        = (k0 :: ks) ++ COLON :: (SP :: (v ++ CR :: (LF :: (encodeHeaders hs ++ [CR, LF] ++ rest)))) := by
      simp [encodeHeaders]
    rw [e1]
    have hnc : consume [CR, LF] ((k0 :: ks) ++ COLON :: (SP :: (v ++ CR :: (LF :: (encodeHeaders hs ++ [CR, LF] ++ rest))))) = none := by
      simp [consume, List.isPrefixOf, hk0cr.symm]
    have hrk := readWhile_append (· != COLON) (k0 :: ks) COLON (SP :: (v ++ CR :: (LF :: (encodeHeaders hs ++ [CR, LF] ++ rest))))
      (by intro b hb; simpa using (hk b hb).1) (by simp)
    have hrv := readWhile_append (· != CR) v CR (LF :: (encodeHeaders hs ++ [CR, LF] ++ rest))
      (by intro b hb; simpa using hv b hb) (by simp)
    rw [show ((k0 :: ks, v) :: hs).length + 1 = (hs.length + 1) + 1 from by simp, parseHeaders]
    simp only [hnc, hrk]
    have c1 : consume [COLON, SP] (COLON :: SP :: (v ++ CR :: LF :: (encodeHeaders hs ++ [CR, LF] ++ rest)))
        = some (v ++ CR :: LF :: (encodeHeaders hs ++ [CR, LF] ++ rest)) := consume_append [COLON, SP] _
    have c2 : consume [CR, LF] (CR :: LF :: (encodeHeaders hs ++ [CR, LF] ++ rest))
        = some (encodeHeaders hs ++ [CR, LF] ++ rest) := consume_append [CR, LF] _
    simp only [c1, hrv, c2, ih']

end Ohkami.P
