import OhkamiModel.P.Fangs
/-! C01/C04 glue: the routes of a trie after `register` / mounting are the routes before plus the new ones
    (as multisets): registration and `By` mounts neither lose nor invent a route. -/
namespace Ohkami.Fangs
open Ohkami

mutual
def routesOfBN : BN → List (Route × Nat)
  | .mk _ _ h ks => (match h with | some x => [([], x)] | none => []) ++ routesOfKidsBN ks
def routesOfKidsBN : List BN → List (Route × Nat)
  | [] => []
  | k :: ks => (match k.pat with
      | some s => (routesOfBN k).map (fun rh => (s :: rh.1, rh.2))
      | none => routesOfBN k) ++ routesOfKidsBN ks
end

def under (r : Route) (l : List (Route × Nat)) : List (Route × Nat) := l.map fun rh => (r ++ rh.1, rh.2)

-- every child of a well-formed trie carries a pattern (only roots have none), and `patMatches` is equality of nodes
mutual
def TreeOK : BN → Prop
  | .mk _ _ _ ks => KidsOK ks
def KidsOK : List BN → Prop
  | [] => True
  | k :: ks => k.pat.isSome ∧ TreeOK k ∧ KidsOK ks
end

theorem patMatches_eq (a b : Seg) (h : patMatches a b = true) : a = b := by
  cases a <;> cases b <;> simp_all [patMatches]

theorem routes_updKids (g : BN → Option BN) (s : Seg) (add : List (Route × Nat))
    (hg : ∀ k k', TreeOK k → k.pat = some s → g k = some k' →
      k'.pat = some s ∧ (routesOfBN k').Perm (routesOfBN k ++ add) ∧ TreeOK k') :
    ∀ ks ks', KidsOK ks → updKids g ks s = some ks' →
      (routesOfKidsBN ks').Perm (routesOfKidsBN ks ++ under [s] add) ∧ KidsOK ks' := by
  intro ks
  induction ks with
  | nil =>
    intro ks' _ h
    simp only [updKids, Option.map_eq_some_iff] at h
    obtain ⟨k', hk', rfl⟩ := h
    obtain ⟨hp, hperm, hok'⟩ := hg _ k' (by simp [TreeOK, KidsOK]) rfl hk'
    refine ⟨?_, by simp [KidsOK, hp, hok']⟩
    simp only [routesOfKidsBN, hp, List.append_nil, List.nil_append]
    have := hperm.map (fun rh : Route × Nat => (s :: rh.1, rh.2))
    simpa [routesOfBN, routesOfKidsBN, under] using this
  | cons k ks ih =>
    intro ks' hok h
    simp only [updKids] at h
    obtain ⟨hkp, hkt, hoks⟩ := hok
    obtain ⟨p, hp⟩ := Option.isSome_iff_exists.mp hkp
    split at h
    · rename_i hm
      simp only [hp, Option.map_some, Option.getD_some] at hm
      have hps : p = s := patMatches_eq p s hm
      subst hps
      simp only [Option.map_eq_some_iff] at h
      obtain ⟨k', hk', rfl⟩ := h
      obtain ⟨hp', hperm, hok'⟩ := hg k k' hkt hp hk'
      refine ⟨?_, by simp [KidsOK, hp', hoks, hok']⟩
      simp only [routesOfKidsBN, hp, hp']
      have h1 := hperm.map (fun rh : Route × Nat => (p :: rh.1, rh.2))
      simp only [List.map_append] at h1
      have : (List.map (fun rh : Route × Nat => (p :: rh.1, rh.2)) add) = under [p] add := by simp [under]
      rw [this] at h1
      refine (List.Perm.append_right _ h1).trans ?_
      rw [List.append_assoc, List.append_assoc]
      exact List.Perm.append_left _ List.perm_append_comm
    · simp only [Option.map_eq_some_iff] at h
      obtain ⟨ks2, hks2, rfl⟩ := h
      obtain ⟨hperm, hok2⟩ := ih ks2 hoks hks2
      refine ⟨?_, by simp [KidsOK, hkp, hkt, hok2]⟩
      simp only [routesOfKidsBN, hp]
      rw [List.append_assoc]
      exact List.Perm.append_left _ hperm


theorem routesOfKids_append : ∀ a b : List BN, routesOfKidsBN (a ++ b) = routesOfKidsBN a ++ routesOfKidsBN b := by
  intro a b
  induction a with
  | nil => simp [routesOfKidsBN]
  | cons k ks ih => simp [routesOfKidsBN, ih, List.append_assoc]

theorem kidsOK_append : ∀ a b : List BN, KidsOK a → KidsOK b → KidsOK (a ++ b) := by
  intro a b ha hb
  induction a with
  | nil => simpa using hb
  | cons k ks ih => exact ⟨ha.1, ha.2.1, ih ha.2.2⟩

theorem under_nil (l : List (Route × Nat)) : under [] l = l := by simp [under]
theorem under_cons (s : Seg) (r : Route) (l : List (Route × Nat)) : under [s] (under r l) = under (s :: r) l := by
  simp [under]

-- merging a node into another (recursively, child into the child of the same pattern) keeps every route of both
mutual
theorem routes_mergeParts : ∀ (t a t' : BN), TreeOK t → TreeOK a → mergeParts t a = some t' →
    t'.pat = t.pat ∧ (routesOfBN t').Perm (routesOfBN t ++ routesOfBN a) ∧ TreeOK t'
  | .mk p f h ks, .mk p' f' h' ks', t', ht, ha, hm => by
    simp only [mergeParts] at hm
    split at hm
    · cases hm
    · rename_i hne
      simp only [Option.map_eq_some_iff] at hm
      obtain ⟨ks2, hk2, rfl⟩ := hm
      obtain ⟨hp, hok⟩ := routes_mergeKids ks ks' ks2 ht ha hk2
      refine ⟨rfl, ?_, hok⟩
      simp only [routesOfBN]
      cases h <;> cases h' <;> simp_all
      · exact (List.Perm.cons _ hp).trans List.perm_middle.symm
theorem routes_mergeKids : ∀ (ks cs ks' : List BN), KidsOK ks → KidsOK cs → mergeKids ks cs = some ks' →
    (routesOfKidsBN ks').Perm (routesOfKidsBN ks ++ routesOfKidsBN cs) ∧ KidsOK ks'
  | ks, [], ks', hk, _, hm => by
    simp only [mergeKids, Option.some.injEq] at hm; subst hm; simp [routesOfKidsBN, hk]
  | ks, c :: cs, ks', hk, hc, hm => by
    obtain ⟨hcp, hct, hcs⟩ := hc
    obtain ⟨s, hs⟩ := Option.isSome_iff_exists.mp hcp
    simp only [mergeKids, hs] at hm
    split at hm
    · simp only [Option.bind_eq_some_iff] at hm
      obtain ⟨ks2, h2, h3⟩ := hm
      have hg : ∀ k k', TreeOK k → k.pat = some s → mergeParts k c = some k' →
          k'.pat = some s ∧ (routesOfBN k').Perm (routesOfBN k ++ routesOfBN c) ∧ TreeOK k' := by
        intro k k' hk' hp hm'
        obtain ⟨h1, h2, h3⟩ := routes_mergeParts k c k' hk' hct hm'
        exact ⟨h1.trans hp, h2, h3⟩
      obtain ⟨hp2, hok2⟩ := routes_updKids (fun k => mergeParts k c) s _ hg ks ks2 hk h2
      obtain ⟨hp3, hok3⟩ := routes_mergeKids ks2 cs ks' hok2 hcs h3
      refine ⟨hp3.trans ?_, hok3⟩
      simp only [routesOfKidsBN, hs, ← List.append_assoc]
      refine List.Perm.append_right _ (hp2.trans ?_)
      simp [under]
    · obtain ⟨hp3, hok3⟩ := routes_mergeKids (ks ++ [c]) cs ks' (kidsOK_append ks [c] hk ⟨hcp, hct, trivial⟩) hcs hm
      refine ⟨hp3.trans ?_, hok3⟩
      simp [routesOfKids_append, routesOfKidsBN, hs, List.append_assoc]
end

/-- **Registration and mounting keep the route table.** Merging the tree `sub` of a mounted application (or the
    one-node tree of a single handler) at the route `r` yields a tree whose routes are the old ones plus the routes
    of `sub` prefixed by `r`; nothing is lost, nothing invented, and the tree stays well-formed. -/
theorem routes_mergeAt : ∀ (r : Route) (t sub t' : BN), TreeOK t → TreeOK sub → mergeAt r t sub = some t' →
    t'.pat = t.pat ∧ (routesOfBN t').Perm (routesOfBN t ++ under r (routesOfBN sub)) ∧ TreeOK t' := by
  intro r
  induction r with
  | nil =>
    intro t sub t' ht hs h
    simp only [mergeAt] at h
    simpa [under_nil] using routes_mergeParts t sub t' ht hs h
  | cons s rest ih =>
    intro t sub t' ht hs h
    obtain ⟨p, f, hh, ks⟩ := t
    simp only [mergeAt, Option.map_eq_some_iff] at h
    obtain ⟨ks', hks', rfl⟩ := h
    have hg : ∀ k k', TreeOK k → k.pat = some s → mergeAt rest k sub = some k' →
        k'.pat = some s ∧ (routesOfBN k').Perm (routesOfBN k ++ under rest (routesOfBN sub)) ∧ TreeOK k' := by
      intro k k' hk hp hm
      obtain ⟨h1, h2, h3⟩ := ih k sub k' hk hs hm
      exact ⟨h1.trans hp, h2, h3⟩
    obtain ⟨hperm, hok⟩ := routes_updKids (fun k => mergeAt rest k sub) s _ hg ks ks' ht hks'
    refine ⟨rfl, ?_, hok⟩
    simp only [routesOfBN]
    rw [under_cons] at hperm
    rw [List.append_assoc]
    exact List.Perm.append_left _ hperm

/-- `register` adds exactly the one route -/
theorem routes_register (t t' : BN) (r : Route) (h : Nat) (ht : TreeOK t) (hr : register t r h = some t') :
    (routesOfBN t').Perm (routesOfBN t ++ [(r, h)]) ∧ TreeOK t' := by
  obtain ⟨_, hp, hok⟩ := routes_mergeAt r t _ t' ht (by simp [TreeOK, KidsOK]) hr
  refine ⟨?_, hok⟩
  simpa [routesOfBN, routesOfKidsBN, under] using hp

end Ohkami.Fangs
