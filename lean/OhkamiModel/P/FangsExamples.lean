import OhkamiModel.P.FangsProofs
open Ohkami Ohkami.Fangs
-- pinned code: inverted order inside the mount, and A's fangs also run outside it
example : run false P1 [[97], [120]] = some ([0, 1], some 7) := by decide
example : run false P1 [[111]] = some ([0, 1], none) := by decide
example : run true P1 [[97], [120]] = some ([1, 0], some 7) ∧ run true P1 [[111]] = some ([0], none) ∧ run true P1 [[97], [121]] = some ([1, 0], none) := by decide
example : scopeChain P1 [[97], [120]] = [0, 1] ∧ scopeChain P1 [[111]] = [0] := by decide
def P2 : App := .mk 0 true [([.static [111]], 9)] [([.static [97]], A)]
-- own routes /a/z and /a/y lie under the mount prefix /:t
def Pbad : App := .mk 0 true [([.static [97], .static [122]], 9), ([.static [97], .static [121]], 8)] [([.param], A)]
example : sideCond P1 = true ∧ sideCond P2 = true ∧ sideCond Pbad = false := by decide
-- without the side condition the statement is false (the router is greedy, statics first): /a/q lies under /:t but is
-- answered by the catch of P's own /a node
example : run true Pbad [[97], [113]] = some ([0], none) ∧ scopeChain Pbad [[97], [113]] = [0, 1] := by decide
