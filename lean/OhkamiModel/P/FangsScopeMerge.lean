import OhkamiModel.P.FangsScope
/-! C04, scope — part 1b: registration and mounting keep the scope invariants. -/
namespace Ohkami.Fangs
open Ohkami

theorem patMatches_iff (a b : Seg) : patMatches a b = true ↔ a = b :=
  ⟨patMatches_eq a b, fun h => h ▸ patMatches_self a⟩

theorem compat_symm (a b : Seg) : compat a b = compat b a := by
  cases a <;> cases b <;> simp [compat, Bool.beq_comm]

theorem overlap_symm (a b : Option Seg) : overlap a b = overlap b a := by
  cases a <;> cases b <;> simp [overlap, compat_symm]

/-- `updKids` either rewrites the one child of pattern `s` (the first one) or appends the rewritten fresh node -/
theorem updKids_spec (g : BN → Option BN) (s : Seg) : ∀ ks ks', KidsOK ks → updKids g ks s = some ks' →
    (∃ pre k post k', ks = pre ++ k :: post ∧ k.pat = some s ∧ (∀ x ∈ pre, x.pat ≠ some s) ∧ g k = some k' ∧
        ks' = pre ++ k' :: post)
    ∨ ((∀ x ∈ ks, x.pat ≠ some s) ∧ ∃ k', g (.mk (some s) [] none []) = some k' ∧ ks' = ks ++ [k']) := by
  intro ks
  induction ks with
  | nil =>
    intro ks' _ h
    simp only [updKids, Option.map_eq_some_iff] at h
    obtain ⟨k', hk', rfl⟩ := h
    exact Or.inr ⟨by simp, k', hk', by simp⟩
  | cons k ks ih =>
    intro ks' hok h
    obtain ⟨hkp, _, hoks⟩ := hok
    obtain ⟨p, hp⟩ := Option.isSome_iff_exists.mp hkp
    simp only [updKids] at h
    split at h
    · rename_i hm
      simp only [hp, Option.map_some, Option.getD_some] at hm
      have hps : p = s := patMatches_eq p s hm
      subst hps
      simp only [Option.map_eq_some_iff] at h
      obtain ⟨k', hk', rfl⟩ := h
      exact Or.inl ⟨[], k, ks, k', by simp, hp, by simp, hk', by simp⟩
    · rename_i hm
      simp only [hp, Option.map_some, Option.getD_some] at hm
      have hne : k.pat ≠ some s := by
        rw [hp]; intro e; cases e; exact hm (patMatches_self s)
      simp only [Option.map_eq_some_iff] at h
      obtain ⟨ks2, hks2, rfl⟩ := h
      rcases ih ks2 hoks hks2 with ⟨pre, k0, post, k', e1, e2, e3, e4, e5⟩ | ⟨e1, k', e2, e3⟩
      · refine Or.inl ⟨k :: pre, k0, post, k', by simp [e1], e2, ?_, e4, by simp [e5]⟩
        intro x hx
        rcases List.mem_cons.mp hx with rfl | hx'
        · exact hne
        · exact e3 x hx'
      · refine Or.inr ⟨?_, k', e2, by simp [e3]⟩
        intro x hx
        rcases List.mem_cons.mp hx with rfl | hx'
        · exact hne
        · exact e1 x hx'

/-! ### merging into an empty node -/
theorem addFang_fresh (l : List Nat) (x : Nat) (h : x ∉ l) : addFang l x = l ++ [x] := by
  simp [addFang, h]

theorem appendFangs_fresh : ∀ (m l : List Nat), (l ++ m).Nodup → appendFangs l m = l ++ m := by
  intro m
  induction m with
  | nil => intro l _; simp [appendFangs]
  | cons x m ih =>
    intro l h
    have hx : x ∉ l := by
      intro hx
      have := (List.nodup_append.mp h).2.2 x hx x (by simp)
      exact this rfl
    simp only [appendFangs, List.foldl_cons, addFang_fresh l x hx]
    have h2 : ((l ++ [x]) ++ m).Nodup := by simpa using h
    have := ih (l ++ [x]) h2
    simpa [appendFangs] using this

theorem hasMatch_mem (ks : List BN) (s : Seg) (h : hasMatch ks s = true) : some s ∈ pats ks := by
  simp only [hasMatch, List.any_eq_true] at h
  obtain ⟨k, hk, hm⟩ := h
  cases hp : k.pat with
  | none => simp [hp] at hm
  | some p =>
    simp only [hp, Option.map_some, Option.getD_some] at hm
    have := patMatches_eq p s hm
    subst this
    simp only [pats, List.mem_map]
    exact ⟨k, hk, hp⟩

theorem mergeKids_fresh : ∀ (cs ks : List BN), KidsOK cs → (pats (ks ++ cs)).Nodup → mergeKids ks cs = some (ks ++ cs) := by
  intro cs
  induction cs with
  | nil => intro ks _ _; simp [mergeKids]
  | cons c cs ih =>
    intro ks hok hn
    obtain ⟨hcp, _, hcs⟩ := hok
    obtain ⟨s, hs⟩ := Option.isSome_iff_exists.mp hcp
    have hno : hasMatch ks s = false := by
      cases hm : hasMatch ks s with
      | false => rfl
      | true =>
        exfalso
        have hmem := hasMatch_mem ks s hm
        simp only [pats, List.map_append, List.map_cons] at hn
        have := (List.nodup_append.mp hn).2.2 (some s) (by simpa [pats] using hmem) (some s) (by simp [hs])
        exact this rfl
    simp only [mergeKids, hs, hno, Bool.false_eq_true, if_false]
    have := ih (ks ++ [c]) hcs (by simpa using hn)
    simpa using this

theorem mergeParts_empty (p : Option Seg) (sub : BN) (hok : TreeOK sub) (hnd : (pats sub.kids).Nodup) (hf : sub.fangs.Nodup) :
    mergeParts (.mk p [] none []) sub = some (.mk p sub.fangs sub.handler sub.kids) := by
  obtain ⟨p', f', h', ks'⟩ := sub
  simp only [mergeParts, BN.fangs, BN.handler, BN.kids] at *
  rw [mergeKids_fresh ks' [] hok (by simpa using hnd), appendFangs_fresh f' [] (by simpa using hf)]
  cases h' <;> simp

/-! ### the routes phase: registering a handler -/
theorem mergeParts_leaf (p : Option Seg) (f : List Nat) (hh : Option Nat) (ks : List BN) (h' : Option Nat) (t' : BN)
    (h : mergeParts (.mk p f hh ks) (.mk none [] h' []) = some t') : ∃ h2, t' = .mk p f h2 ks := by
  simp only [mergeParts] at h
  split at h
  · cases h
  · simp only [mergeKids, Option.map_some, Option.some.injEq, appendFangs, List.foldl_nil] at h
    exact ⟨_, h.symm⟩

theorem free_fresh (s : Seg) : ∀ r : Route, Free r (.mk (some s) [] none [])
  | [] => by simp [Free]
  | _ :: _ => by simp [Free, FreeKids]

theorem flat_mergeAt_leaf : ∀ (q : Route) (t t' : BN) (h' : Option Nat), TreeOK t → Flat [] t →
    mergeAt q t (.mk none [] h' []) = some t' → Flat [] t'
  | [], .mk p f hh ks, t', h', _, hf, h => by
    simp only [mergeAt] at h
    obtain ⟨h2, rfl⟩ := mergeParts_leaf p f hh ks h' t' h
    exact hf
  | b :: q', .mk p f hh ks, t', h', hok, hf, h => by
    simp only [mergeAt, Option.map_eq_some_iff] at h
    obtain ⟨ks', hk, rfl⟩ := h
    obtain ⟨rfl, hfk⟩ := hf
    refine ⟨rfl, ?_⟩
    rcases updKids_spec _ b ks ks' hok hk with ⟨pre, k, post, k', rfl, _, _, hg, rfl⟩ | ⟨_, k', hg, rfl⟩
    · rw [flatKids_append] at hfk ⊢
      have hokk : TreeOK k := by
        have := (kidsOK_append_iff pre (k :: post)).mp hok
        exact this.2.2.1
      exact ⟨hfk.1, flat_mergeAt_leaf q' k k' h' hokk hfk.2.1 hg, hfk.2.2⟩
    · rw [flatKids_append]
      refine ⟨hfk, ?_, trivial⟩
      exact flat_mergeAt_leaf q' _ k' h' (by simp [TreeOK, KidsOK]) (by simp [Flat, FlatKids]) hg

theorem free_mergeAt_leaf : ∀ (q r : Route) (t t' : BN) (h' : Option Nat), TreeOK t → Free r t → conflict r q = false →
    mergeAt q t (.mk none [] h' []) = some t' → Free r t'
  | [], r, .mk p f hh ks, t', h', _, hfr, hc, h => by
    simp only [mergeAt] at h
    obtain ⟨h2, rfl⟩ := mergeParts_leaf p f hh ks h' t' h
    cases r with
    | nil => simp [conflict] at hc
    | cons a r' => exact hfr
  | b :: q', r, .mk p f hh ks, t', h', hok, hfr, hc, h => by
    simp only [mergeAt, Option.map_eq_some_iff] at h
    obtain ⟨ks', hk, rfl⟩ := h
    cases r with
    | nil => simp [conflict] at hc
    | cons a r' =>
      obtain ⟨rfl, hfk⟩ := hfr
      refine ⟨rfl, ?_⟩
      simp only [conflict] at hc
      rcases updKids_spec _ b ks ks' hok hk with ⟨pre, k, post, k', rfl, hkp, _, hg, rfl⟩ | ⟨_, k', hg, rfl⟩
      · rw [freeKids_append] at hfk ⊢
        refine ⟨hfk.1, ?_, hfk.2.2⟩
        have hokk : TreeOK k := ((kidsOK_append_iff pre (k :: post)).mp hok).2.2.1
        have hkp' : k'.pat = some b := by rw [mergeAt_pat q' k _ k' hg, hkp]
        have h1 := hfk.2.1
        rw [hkp] at h1
        rw [hkp']
        by_cases hab : a = b
        · subst hab
          simp only [patMatches_self, if_true] at hc h1 ⊢
          exact free_mergeAt_leaf q' r' k k' h' hokk h1 hc hg
        · have hba : ¬ (some b = some a) := by intro e; cases e; exact hab rfl
          simp only [hba, if_false] at h1 ⊢
          exact h1
      · rw [freeKids_append]
        refine ⟨hfk, ?_, trivial⟩
        have hkp' : k'.pat = some b := by rw [mergeAt_pat q' _ _ k' hg]; rfl
        rw [hkp']
        by_cases hab : a = b
        · subst hab
          simp only [patMatches_self, if_true] at hc ⊢
          exact free_mergeAt_leaf q' r' _ k' h' (by simp [TreeOK, KidsOK]) (free_fresh a r') hc hg
        · have hba : ¬ (some b = some a) := by intro e; cases e; exact hab rfl
          have hpm : patMatches a b = false := by
            cases hm : patMatches a b with
            | false => rfl
            | true => exact absurd (patMatches_eq a b hm) hab
          simp only [hpm, Bool.false_eq_true, if_false] at hc
          simp only [hba, if_false, overlap, compat_symm b a, hc]

/-! ### the mounts phase: replacing the one child on the prefix path -/
def diverge : Route → Route → Bool
  | a :: r, b :: q => if patMatches a b then diverge r q else !compat a b
  | _, _ => false

theorem diverge_of_noConflict : ∀ r q : Route, conflict r q = false → conflict q r = false → diverge r q = true
  | [], _, h, _ => by simp [conflict] at h
  | _ :: _, [], _, h => by simp [conflict] at h
  | a :: r, b :: q, h1, h2 => by
    simp only [conflict, diverge] at *
    by_cases hab : a = b
    · subst hab
      simp only [patMatches_self, if_true] at *
      exact diverge_of_noConflict r q h1 h2
    · have hpm : patMatches a b = false := by
        cases hm : patMatches a b with
        | false => rfl
        | true => exact absurd (patMatches_eq a b hm) hab
      simp only [hpm, Bool.false_eq_true, if_false] at h1 ⊢
      simp [h1]

theorem segUnder_cons (s : Seg) (ps : Route) (s0 : Bytes) (ss : List Bytes) :
    segUnder (s :: ps) (s0 :: ss) = if segMatch s s0 then segUnder ps ss else none := by
  cases s <;> simp [segUnder, segMatch]

theorem overlap_of_match (x : BN) (s : Seg) (s0 : Bytes) (h1 : kidMatches x s0 = true) (h2 : segMatch s s0 = true) :
    overlap x.pat (some s) = true := by
  cases hp : x.pat with
  | none => simp [overlap]
  | some a =>
    simp only [kidMatches, hp, Option.map_some, Option.getD_some] at h1
    cases a <;> cases s <;> simp_all [overlap, compat, segMatch]

theorem scopeBN_fresh (s : Seg) (ss : List Bytes) : scopeBN (.mk (some s) [] none []) ss = [] := by
  cases ss <;> simp [scopeBN, scopeKids]

theorem scopeBN_pat (p p' : Option Seg) (f : List Nat) (h : Option Nat) (ks : List BN) (ss : List Bytes) :
    scopeBN (.mk p f h ks) ss = scopeBN (.mk p' f h ks) ss := by
  cases ss <;> simp [scopeBN]

theorem freeKids_sep (s : Seg) (rest : Route) : ∀ ks : List BN, FreeKids s rest ks → ∀ x ∈ ks, x.pat ≠ some s →
    overlap x.pat (some s) = false
  | [], _, x, hx, _ => by cases hx
  | k :: ks, h, x, hx, hne => by
    rcases List.mem_cons.mp hx with rfl | hx'
    · have := h.1
      simpa [hne] using this
    · exact freeKids_sep s rest ks h.2 x hx' hne

theorem nds_append_iff : ∀ a b : List BN, NDs (a ++ b) ↔ NDs a ∧ NDs b
  | [], b => by simp [NDs]
  | k :: a, b => by simp [NDs, nds_append_iff a b, and_assoc]

theorem pats_sep (pre post : List BN) (k : BN) (s : Seg) (hk : k.pat = some s) (hn : (pats (pre ++ k :: post)).Nodup) :
    ∀ x ∈ pre ++ post, x.pat ≠ some s := by
  intro x hx he
  simp only [pats, List.map_append, List.map_cons, hk] at hn
  have h1 := List.nodup_append.mp hn
  rcases List.mem_append.mp hx with hx | hx
  · exact h1.2.2 (some s) (by simp only [List.mem_map]; exact ⟨x, hx, he⟩) (some s) (by simp) rfl
  · have h2 := List.nodup_cons.mp h1.2.1
    exact h2.1 (by simp only [List.mem_map]; exact ⟨x, hx, he⟩)

/-- R1: the replaced child keeps the node good -/
theorem good_replace (p : Option Seg) (h : Option Nat) (pre post : List BN) (k k' : BN) (s : Seg)
    (hk' : k'.pat = some s) (hsep : ∀ x ∈ pre ++ post, overlap x.pat (some s) = false)
    (hg : Good (.mk p [] h (pre ++ k :: post))) (hg' : Good k') : Good (.mk p [] h (pre ++ k' :: post)) := by
  obtain ⟨_, hpw, hgk⟩ := hg
  refine ⟨List.nodup_nil, ?_, ?_⟩
  · rw [List.pairwise_append] at hpw ⊢
    obtain ⟨h1, h2, h3⟩ := hpw
    rw [List.pairwise_cons] at h2 ⊢
    refine ⟨h1, ⟨?_, h2.2⟩, ?_⟩
    · intro y hy ho
      rw [hk', overlap_symm, hsep y (List.mem_append.mpr (Or.inr hy))] at ho
      cases ho
    · intro x hx y hy
      rcases List.mem_cons.mp hy with rfl | hy'
      · intro ho
        rw [hk', hsep x (List.mem_append.mpr (Or.inl hx))] at ho
        cases ho
      · exact h3 x hx y (List.mem_cons_of_mem _ hy')
  · rw [goodKids_append] at hgk ⊢
    exact ⟨hgk.1, ⟨k'.fangs, by simp⟩, hg', hgk.2.2.2⟩

/-- R2: the walk enters the replaced child exactly for the segments its pattern matches -/
theorem scope_replace (p : Option Seg) (h : Option Nat) (pre post : List BN) (k k' : BN) (s : Seg)
    (hk : k.pat = some s) (hk' : k'.pat = some s) (hsep : ∀ x ∈ pre ++ post, overlap x.pat (some s) = false)
    (s0 : Bytes) (ss : List Bytes) :
    scopeBN (.mk p [] h (pre ++ k' :: post)) (s0 :: ss) =
      if segMatch s s0 then scopeBN k' ss else scopeBN (.mk p [] h (pre ++ k :: post)) (s0 :: ss) := by
  simp only [scopeBN, scopeKids_append, scopeKids]
  have e1 : kidMatches k' s0 = segMatch s s0 := by simp [kidMatches, hk']
  have e2 : kidMatches k s0 = segMatch s s0 := by simp [kidMatches, hk]
  rw [e1, e2]
  by_cases hm : segMatch s s0 = true
  · have hpre : pre.any (kidMatches · s0) = false := by
      cases hh : pre.any (kidMatches · s0) with
      | false => rfl
      | true =>
        exfalso
        obtain ⟨x, hx, hxm⟩ := List.any_eq_true.mp hh
        have := overlap_of_match x s s0 hxm hm
        rw [hsep x (List.mem_append.mpr (Or.inl hx))] at this
        cases this
    simp [hm, hpre]
  · simp [hm]

theorem good_pat (p p' : Option Seg) (f : List Nat) (h : Option Nat) (ks : List BN) :
    Good (.mk p f h ks) → Good (.mk p' f h ks) := fun h => h

theorem allIds_pat (P : Nat → Prop) (p p' : Option Seg) (f : List Nat) (h : Option Nat) (ks : List BN) :
    AllIds P (.mk p f h ks) → AllIds P (.mk p' f h ks) := fun h => h

/-- what a node with the fresh child appended looks like: nothing changes for the walk -/
theorem fresh_ext (p : Option Seg) (h : Option Nat) (ks : List BN) (s : Seg)
    (hsep : ∀ x ∈ ks, overlap x.pat (some s) = false) (hg : Good (.mk p [] h ks)) :
    Good (.mk p [] h (ks ++ [.mk (some s) [] none []])) ∧
    ∀ ss, scopeBN (.mk p [] h (ks ++ [.mk (some s) [] none []])) ss = scopeBN (.mk p [] h ks) ss := by
  obtain ⟨_, hpw, hgk⟩ := hg
  refine ⟨⟨List.nodup_nil, ?_, ?_⟩, ?_⟩
  · rw [List.pairwise_append]
    refine ⟨hpw, List.pairwise_singleton _ _, ?_⟩
    intro x hx y hy ho
    rcases List.mem_singleton.mp hy with rfl
    change overlap x.pat (some s) = true at ho
    rw [hsep x hx] at ho
    cases ho
  · rw [goodKids_append]
    exact ⟨hgk, ⟨[], rfl⟩, ⟨List.nodup_nil, List.Pairwise.nil, trivial⟩, trivial⟩
  · intro ss
    cases ss with
    | nil => simp [scopeBN]
    | cons s0 ss =>
      show scopeKids [] (ks ++ [.mk (some s) [] none []]) s0 ss = scopeKids [] ks s0 ss
      rw [scopeKids_append]
      by_cases hh : ks.any (kidMatches · s0) = true
      · simp [hh]
      · have hh' : ks.any (kidMatches · s0) = false := by simpa using hh
        rw [scopeKids_noMatch [] s0 ss ks hh']
        simp only [hh', Bool.false_eq_true, if_false]
        show (if kidMatches (.mk (some s) [] none []) s0 then scopeBN (.mk (some s) [] none []) ss else scopeKids [] [] s0 ss) = []
        rw [scopeBN_fresh]
        simp [scopeKids]

/-- **mounting under a free prefix** grafts the mounted trie at the end of the prefix and changes nothing else -/
theorem mount_mergeAt : ∀ (r : Route) (t sub t' : BN), TreeOK t → ND t → Good t → Free r t →
    TreeOK sub → ND sub → Good sub → mergeAt r t sub = some t' →
    Good t' ∧
    (∀ ss, scopeBN t' ss = match segUnder r ss with | some ss' => scopeBN sub ss' | none => scopeBN t ss) ∧
    (∀ r', diverge r' r = true → Free r' t → Free r' t') ∧
    (∀ P, AllIds P t → AllIds P sub → AllIds P t')
  | [], .mk p f hh ks, .mk ps fs hs kss, t', _, _, _, hfr, hoks, hnds, hgs, h => by
    obtain ⟨rfl, rfl, rfl⟩ := hfr
    simp only [mergeAt] at h
    rw [mergeParts_empty p (.mk ps fs hs kss) hoks hnds.1 hgs.1] at h
    cases h
    refine ⟨good_pat ps p fs hs kss hgs, ?_, ?_, ?_⟩
    · intro ss
      simp only [segUnder, BN.fangs, BN.handler, BN.kids]
      exact scopeBN_pat p ps fs hs kss ss
    · intro r' hd; cases r' <;> simp [diverge] at hd
    · intro P _ h2; exact allIds_pat P ps p fs hs kss h2
  | s :: rest, .mk p f hh ks, sub, t', hok, hnd, hg, hfr, hoks, hnds, hgs, h => by
    obtain ⟨rfl, hfk⟩ := hfr
    simp only [mergeAt, Option.map_eq_some_iff] at h
    obtain ⟨ks', hk, rfl⟩ := h
    -- both cases of `updKids` are the replacement of one child `k` of pattern `s` in a list `pre ++ k :: post`
    have key : ∃ pre k post k', k.pat = some s ∧ k'.pat = some s ∧ ks' = pre ++ k' :: post ∧
        (∀ x ∈ pre ++ post, overlap x.pat (some s) = false) ∧
        Good (.mk p [] hh (pre ++ k :: post)) ∧
        (∀ ss, scopeBN (.mk p [] hh (pre ++ k :: post)) ss = scopeBN (.mk p [] hh ks) ss) ∧
        TreeOK k ∧ ND k ∧ Good k ∧ Free rest k ∧ mergeAt rest k sub = some k' ∧
        (∀ a r'', FreeKids a r'' ks → FreeKids a r'' pre ∧ FreeKids a r'' post ∧ (a = s → Free r'' k)) ∧
        (∀ P, AllIdsKids P ks → AllIdsKids P pre ∧ AllIds P k ∧ AllIdsKids P post) := by
      rcases updKids_spec _ s ks ks' hok hk with ⟨pre, k, post, k', rfl, hkp, _, hgk, rfl⟩ | ⟨hno, k', hgk, rfl⟩
      · have hsep : ∀ x ∈ pre ++ post, overlap x.pat (some s) = false := by
          intro x hx
          have hxm : x ∈ pre ++ k :: post := by
            rcases List.mem_append.mp hx with h1 | h1
            · exact List.mem_append.mpr (Or.inl h1)
            · exact List.mem_append.mpr (Or.inr (List.mem_cons_of_mem _ h1))
          exact freeKids_sep s rest _ hfk x hxm (pats_sep pre post k s hkp hnd.1 x hx)
        have hokk := ((kidsOK_append_iff pre (k :: post)).mp hok).2.2.1
        have hndk := ((nds_append_iff pre (k :: post)).mp hnd.2).2.1
        have hgk2 := ((goodKids_append [] pre (k :: post)).mp hg.2.2).2.2.1
        have hfrk : Free rest k := by
          have := ((freeKids_append s rest pre (k :: post)).mp hfk).2.1
          simpa [hkp] using this
        refine ⟨pre, k, post, k', hkp, by rw [mergeAt_pat rest k sub k' hgk, hkp], rfl, hsep, hg, fun _ => rfl,
          hokk, hndk, hgk2, hfrk, hgk, ?_, ?_⟩
        · intro a r'' hf
          have := (freeKids_append a r'' pre (k :: post)).mp hf
          refine ⟨this.1, this.2.2, ?_⟩
          intro e; subst e
          simpa [hkp] using this.2.1
        · intro P hP
          have := (allIdsKids_append P pre (k :: post)).mp hP
          exact ⟨this.1, this.2.1, this.2.2⟩
      · have hsep : ∀ x ∈ ks, overlap x.pat (some s) = false := fun x hx => freeKids_sep s rest ks hfk x hx (hno x hx)
        obtain ⟨hg2, hsc2⟩ := fresh_ext p hh ks s hsep hg
        refine ⟨ks, .mk (some s) [] none [], [], k', rfl, by rw [mergeAt_pat rest _ sub k' hgk]; rfl, rfl,
          by simpa using hsep, hg2, hsc2, by simp [TreeOK, KidsOK], by simp [ND, NDs, pats],
          ⟨List.nodup_nil, List.Pairwise.nil, trivial⟩, free_fresh s rest, hgk, ?_, ?_⟩
        · intro a r'' hf
          exact ⟨hf, trivial, fun _ => free_fresh s r''⟩
        · intro P hP
          exact ⟨hP, ⟨by simp, trivial⟩, trivial⟩
    obtain ⟨pre, k, post, k', hkp, hkp', rfl, hsep, hgood, hscope, hokk, hndk, hgk2, hfrk, hmk, hfree, hids⟩ := key
    obtain ⟨ih1, ih2, ih3, ih4⟩ := mount_mergeAt rest k sub k' hokk hndk hgk2 hfrk hoks hnds hgs hmk
    refine ⟨good_replace p hh pre post k k' s hkp' hsep hgood ih1, ?_, ?_, ?_⟩
    · intro ss
      cases ss with
      | nil => simp [scopeBN, segUnder]
      | cons s0 ss =>
        rw [scope_replace p hh pre post k k' s hkp hkp' hsep s0 ss, segUnder_cons, ih2 ss]
        by_cases hm : segMatch s s0 = true
        · simp only [hm, if_true]
          cases hsu : segUnder rest ss with
          | some ss' => rfl
          | none =>
            simp only
            rw [← hscope (s0 :: ss), scope_replace p hh pre post k k s hkp hkp hsep s0 ss]
            simp [hm]
        · simp only [hm, Bool.false_eq_true, if_false]
          exact hscope (s0 :: ss)
    · intro r' hd hf
      cases r' with
      | nil => simp [diverge] at hd
      | cons a r'' =>
        obtain ⟨_, hfk'⟩ := hf
        refine ⟨rfl, ?_⟩
        obtain ⟨f1, f2, f3⟩ := hfree a r'' hfk'
        rw [freeKids_append]
        refine ⟨f1, ?_, f2⟩
        rw [hkp']
        simp only [diverge] at hd
        by_cases hab : a = s
        · subst hab
          simp only [patMatches_self, if_true] at hd ⊢
          exact ih3 r'' hd (f3 rfl)
        · have hsa : ¬ (some s = some a) := by intro e; cases e; exact hab rfl
          have hpm : patMatches a s = false := by
            cases hm : patMatches a s with
            | false => rfl
            | true => exact absurd (patMatches_eq a s hm) hab
          simp only [hpm, Bool.false_eq_true, if_false, Bool.not_eq_true'] at hd
          simp only [hsa, if_false, overlap, compat_symm s a, hd]
    · intro P hP hPs
      obtain ⟨hPf, hPk⟩ := hP
      obtain ⟨i1, i2, i3⟩ := hids P hPk
      refine ⟨hPf, ?_⟩
      rw [allIdsKids_append]
      exact ⟨i1, ih4 P i2 hPs, i3⟩

end Ohkami.Fangs
