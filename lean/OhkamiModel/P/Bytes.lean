import OhkamiModel.P.TrieMain
namespace Ohkami

/-! byte level: paths as `/s1/s2/…`, static patterns as byte strings, `take_through` with the segment boundary (F1) -/

def joinSegs : List Bytes → Bytes
  | [] => []
  | s :: ss => slash :: (s ++ joinSegs ss)

def NoSlash (s : Bytes) : Prop := slash ∉ s

-- empty or starting with '/'
def Slashy (b : Bytes) : Prop := b = [] ∨ b.head? = some slash

theorem slashy_joinSegs (ss : List Bytes) : Slashy (joinSegs ss) := by
  cases ss with
  | nil => left; rfl
  | cons s ss => right; simp [joinSegs]

-- `Pattern::Static` branch of take_through: byte prefix, and (F1) the rest is empty or starts with '/'
def takeStatic (boundary : Bool) (pat bytes : Bytes) : Option Bytes :=
  if pat.isPrefixOf bytes then
    let rem := bytes.drop pat.length
    if boundary && !(rem.isEmpty || rem.head? == some slash) then none else some rem
  else none

/-- one segment against one segment -/
theorem takeStatic_seg : ∀ (c s T U : Bytes), NoSlash c → NoSlash s → Slashy T → Slashy U →
    takeStatic true (c ++ T) (s ++ U) = if c = s then takeStatic true T U else none := by
  intro c
  induction c with
  | nil =>
    intro s T U _ hs hT hU
    cases s with
    | nil => simp
    | cons b s' =>
      have hb : b ≠ slash := by intro e; apply hs; simp [e]
      simp only [List.nil_append, List.cons_append]
      have hne : ¬ (([] : Bytes) = b :: s') := by simp
      rw [if_neg hne]
      rcases hT with rfl | hT
      · simp [takeStatic, hb]
      · cases T with
        | nil => simp at hT
        | cons t T' =>
          simp at hT; subst hT
          simp [takeStatic, List.isPrefixOf, Ne.symm hb]
  | cons a c' ih =>
    intro s T U hc hs hT hU
    have ha : a ≠ slash := by intro e; apply hc; simp [e]
    have hc' : NoSlash c' := by intro h; apply hc; simp [h]
    cases s with
    | nil =>
      have hne : ¬ (a :: c' = ([] : Bytes)) := by simp
      rw [if_neg hne]
      simp only [List.nil_append, List.cons_append]
      rcases hU with rfl | hU
      · simp [takeStatic, List.isPrefixOf]
      · cases U with
        | nil => simp at hU
        | cons u U' =>
          simp at hU; subst hU
          simp [takeStatic, List.isPrefixOf, ha]
    | cons b s' =>
      have hs' : NoSlash s' := by intro h; apply hs; simp [h]
      simp only [List.cons_append]
      by_cases hab : a = b
      · subst hab
        have := ih s' T U hc' hs' hT hU
        simp only [takeStatic, List.isPrefixOf, beq_self_eq_true, Bool.true_and, List.length_cons, List.drop_succ_cons] at this ⊢
        rw [this]
        by_cases hcs : c' = s' <;> simp [hcs]
      · have hne : ¬ (a :: c' = b :: s') := by intro e; exact hab (List.cons.inj e).1
        rw [if_neg hne]
        simp [takeStatic, List.isPrefixOf, hab]

end Ohkami

namespace Ohkami

theorem takeStatic_cons (b : Bool) (x : UInt8) (p q : Bytes) : takeStatic b (x :: p) (x :: q) = takeStatic b p q := by
  simp [takeStatic, List.isPrefixOf]

theorem takeStatic_nil_slashy (B : Bytes) (h : Slashy B) : takeStatic true [] B = some B := by
  rcases h with rfl | h
  · simp [takeStatic]
  · cases B with
    | nil => simp at h
    | cons x B' => simp at h; subst h; simp [takeStatic]

/-- a compressed pattern `/c1/c2/…` matches (with the boundary condition) exactly the paths whose first
    segments are `c1, c2, …`; what remains is the rest of the path -/
theorem takeStatic_chain : ∀ (cs segs : List Bytes), (∀ c ∈ cs, NoSlash c) → (∀ s ∈ segs, NoSlash s) →
    takeStatic true (joinSegs cs) (joinSegs segs) =
      if cs.isPrefixOf segs then some (joinSegs (segs.drop cs.length)) else none := by
  intro cs
  induction cs with
  | nil =>
    intro segs _ _
    simp only [joinSegs, List.isPrefixOf, if_true, List.length_nil, List.drop_zero]
    exact takeStatic_nil_slashy _ (slashy_joinSegs segs)
  | cons c cs' ih =>
    intro segs hc hs
    cases segs with
    | nil => simp [joinSegs, takeStatic, List.isPrefixOf]
    | cons s ss =>
      simp only [joinSegs, takeStatic_cons]
      rw [takeStatic_seg c s _ _ (hc c (by simp)) (hs s (by simp)) (slashy_joinSegs _) (slashy_joinSegs _)]
      rw [ih ss (fun x hx => hc x (by simp [hx])) (fun x hx => hs x (by simp [hx]))]
      by_cases hcs : c = s
      · subst hcs; simp [List.isPrefixOf]
      · simp [List.isPrefixOf, hcs]

-- the defect F1 repairs, on the property's own example: without the boundary the pattern `/users` eats `/users2`
example : takeStatic false [47, 117, 115, 101, 114, 115] [47, 117, 115, 101, 114, 115, 50] = some [50] := by decide   -- "/users" vs "/users2"
example : takeStatic true [47, 117, 115, 101, 114, 115] [47, 117, 115, 101, 114, 115, 50] = none := by decide

end Ohkami
