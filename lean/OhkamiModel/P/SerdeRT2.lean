import OhkamiModel.P.SerdeRT
namespace Ohkami.Serde

variable (P : Prims) (hP : PrimsOK P)

theorem clean_head_ne_amp (r rest : Bytes) (h : Clean r) (hne : r ≠ []) :
    ((r ++ rest).isEmpty || (r ++ rest).head? == some AMP) = false := by
  cases r with
  | nil => exact absurd rfl hne
  | cons b bs =>
    have := (h b (by simp)).1
    simp [this]

theorem stop_test (rest : Bytes) (hs : Stop rest) : (rest.isEmpty || rest.head? == some AMP) = true := by
  rcases hs with rfl | ⟨t, rfl⟩ <;> simp

theorem encVal_some_ne (v : Value) (r : Bytes) (hu : unamb true (.some v) = true) (he : encVal true v = .ok r) : r ≠ [] := by
  simp only [unamb, he, Bool.and_eq_true] at hu
  intro h; subst h; simp at hu

theorem clean_joinSeq : ∀ rs : List Bytes, (∀ r ∈ rs, CleanC r) → Clean (joinSeq true rs) := by
  intro rs h
  cases rs with
  | nil => intro x hx; simp [joinSeq] at hx
  | cons r rs =>
    intro x hx
    simp only [joinSeq, Bool.not_true, Bool.false_and, Bool.false_eq_true, if_false, List.mem_append, List.mem_flatMap, List.mem_cons] at hx
    rcases hx with hx | ⟨r', hr', rfl | hx⟩
    · exact (h r (by simp)).clean x hx
    · decide
    · exact (h r' (by simp [hr'])).clean x hx

theorem encVal_seq (vs : List Value) (r : Bytes) (he : encVal true (.seq vs) = .ok r) :
    ∃ rs, encVal.encVals true vs = .ok rs ∧ r = joinSeq true rs := by
  cases h : encVal.encVals true vs with
  | error e => simp [encVal, h, bind, Except.bind] at he
  | ok rs => simp [encVal, h, bind, Except.bind, pure, Except.pure] at he; exact ⟨rs, rfl, he.symm⟩

theorem encVals_cons (v : Value) (vs : List Value) (rs : List Bytes) (he : encVal.encVals true (v :: vs) = .ok rs) :
    ∃ r rs', encVal true v = .ok r ∧ encVal.encVals true vs = .ok rs' ∧ rs = r :: rs' := by
  cases h1 : encVal true v with
  | error e => simp [encVal.encVals, h1, bind, Except.bind] at he
  | ok r1 =>
    cases h2 : encVal.encVals true vs with
    | error e => simp [encVal.encVals, h1, h2, bind, Except.bind] at he
    | ok rs' =>
      simp [encVal.encVals, h1, h2, bind, Except.bind, pure, Except.pure] at he
      exact ⟨r1, rs', rfl, rfl, he.symm⟩

theorem encVals_nil (vs : List Value) (he : encVal.encVals true vs = .ok []) : vs = [] := by
  cases vs with
  | nil => rfl
  | cons v vs => obtain ⟨r, rs', _, _, h⟩ := encVals_cons v vs [] he; cases h

theorem clean_encVal (u : Bytes → Bool) : ∀ (v : Value) (t : Ty) (r : Bytes),
    wellTyped u t v = true → encVal true v = .ok r → Clean r
  | .some v, t, r, hw, he => by
    cases t <;> simp only [wellTyped, Bool.false_eq_true] at hw
    rename_i t'
    exact clean_encVal u v t' r hw (by simpa [encVal] using he)
  | .newtype v, t, r, hw, he => by
    cases t <;> simp only [wellTyped, Bool.false_eq_true] at hw
    rename_i t'
    exact clean_encVal u v t' r hw (by simpa [encVal] using he)
  | .seq vs, t, r, hw, he => by
    cases t <;> simp only [wellTyped, Bool.false_eq_true, Bool.and_eq_true] at hw
    rename_i t'
    obtain ⟨rs, h1, rfl⟩ := encVal_seq vs r he
    exact clean_joinSeq rs (cleanC_encVals u t' hw.1 vs rs hw.2 h1)
  | .bool b, t, r, hw, he => (cleanC_encVal u (.bool b) .bool r rfl rfl he).clean
  | .int z, t, r, hw, he => by simp only [encVal, Except.ok.injEq] at he; subst he; exact (cleanC_showInt z).clean
  | .char c, t, r, hw, he => by simp only [encVal, Except.ok.injEq] at he; subst he; exact (cleanC_encode _).clean
  | .str c, t, r, hw, he => by simp only [encVal, Except.ok.injEq] at he; subst he; exact (cleanC_encode _).clean
  | .variant c, t, r, hw, he => by simp only [encVal, Except.ok.injEq] at he; subst he; exact (cleanC_encode _).clean
  | .none, t, r, hw, he => by simp only [encVal, Except.ok.injEq] at he; subst he; exact cleanC_nil.clean
  | .unit, t, r, hw, he => by simp only [encVal, Except.ok.injEq] at he; subst he; exact cleanC_nil.clean
  | .defaulted, t, r, hw, he => by simp only [encVal, Except.ok.injEq] at he; subst he; exact cleanC_nil.clean
  | .floatText _, t, r, hw, _ => by cases t <;> simp [wellTyped] at hw
  | .bytes _, t, r, _, he => by simp [encVal] at he
  | .map _, t, r, _, he => by simp [encVal] at he
  | .struct _, t, r, _, he => by simp [encVal] at he

include hP
mutual
theorem dec_val : ∀ (v : Value) (t : Ty) (r rest : Bytes) (fuel : Nat),
    wellTyped P.validUtf8 t v = true → unamb true v = true → encVal true v = .ok r → Stop rest → sz v ≤ fuel →
    decode P false fuel t ⟨r ++ rest, .value⟩ = .ok (v, ⟨rest, .value⟩)
  | .bool b, t, r, rest, fuel, hw, _, he, hs, hf => by
    obtain ⟨f, rfl⟩ : ∃ f, fuel = f + 1 := ⟨fuel - 1, by simp [sz] at hf; omega⟩
    cases t <;> simp only [wellTyped, Bool.false_eq_true] at hw
    simp only [encVal, Except.ok.injEq] at he; subst he
    have hc : Clean (if b then TRUE else FALSE) := (cleanC_encVal P.validUtf8 (.bool b) .bool _ rfl rfl rfl).clean
    simp only [decode, sectionOr_value _ _ rest hc hs, ok_bind]
    cases b
    · simp only [Bool.false_eq_true, if_false, hP.pctBool.2]; simp [TRUE, FALSE]
    · simp only [if_true, hP.pctBool.1]; simp [TRUE, FALSE]
  | .int z, t, r, rest, fuel, hw, _, he, hs, hf => by
    obtain ⟨f, rfl⟩ : ∃ f, fuel = f + 1 := ⟨fuel - 1, by simp [sz] at hf; omega⟩
    simp only [encVal, Except.ok.injEq] at he; subst he
    cases t <;> simp only [wellTyped, Bool.false_eq_true, Bool.and_eq_true, decide_eq_true_eq] at hw
    · simp only [decode, sectionOr_value _ _ rest (cleanC_showInt z).clean hs, ok_bind, hP.pctInt, hP.intUtf8, if_true, hP.intU _ z hw.1 hw.2, pure_eq]
    · simp only [decode, sectionOr_value _ _ rest (cleanC_showInt z).clean hs, ok_bind, hP.pctInt, hP.intUtf8, if_true, hP.intS _ z hw.1 hw.2, pure_eq]
  | .char c, t, r, rest, fuel, hw, _, he, hs, hf => by
    obtain ⟨f, rfl⟩ : ∃ f, fuel = f + 1 := ⟨fuel - 1, by simp [sz] at hf; omega⟩
    simp only [encVal, Except.ok.injEq] at he; subst he
    cases t <;> simp only [wellTyped, Bool.false_eq_true] at hw
    have hc : c < 0xD800 ∨ (0xE000 ≤ c ∧ c < 0x110000) := by simpa using hw
    simp only [decode, nextSection_value _ rest (cleanC_encode _).clean hs, ok_bind, hP.pct, (hP.chr c hc).1, (hP.chr c hc).2, if_true, pure_eq]
  | .str s, t, r, rest, fuel, hw, _, he, hs, hf => by
    obtain ⟨f, rfl⟩ : ∃ f, fuel = f + 1 := ⟨fuel - 1, by simp [sz] at hf; omega⟩
    simp only [encVal, Except.ok.injEq] at he; subst he
    cases t <;> simp only [wellTyped, Bool.false_eq_true, Bool.and_eq_true, beq_iff_eq] at hw
    · have hcs : Clean s := by have := (cleanC_encode s).clean; rwa [hw.2] at this
      have hd : P.percentDecode s = s := by have := hP.pct s; rwa [hw.2] at this
      simp [decode, hw.2, nextSection_value s rest hcs hs, decodeStr, hd, hw.1]
    · simp [decode, nextSection_value _ rest (cleanC_encode _).clean hs, decodeStr, hP.pct, hw]
  | .variant n, t, r, rest, fuel, hw, _, he, hs, hf => by
    obtain ⟨f, rfl⟩ : ∃ f, fuel = f + 1 := ⟨fuel - 1, by simp [sz] at hf; omega⟩
    simp only [encVal, Except.ok.injEq] at he; subst he
    cases t <;> simp only [wellTyped, Bool.false_eq_true, Bool.and_eq_true, beq_iff_eq] at hw
    have hm : n ∈ _ := List.contains_iff_mem.mp hw.1
    simp [decode, nextSection_value _ rest (cleanC_encode _).clean hs, decodeStr, hP.pct, hw.2, hm]
  | .none, t, r, rest, fuel, hw, _, he, hs, hf => by
    obtain ⟨f, rfl⟩ : ∃ f, fuel = f + 1 := ⟨fuel - 1, by simp [sz] at hf; omega⟩
    simp only [encVal, Except.ok.injEq] at he; subst he
    cases t <;> simp only [wellTyped, Bool.false_eq_true] at hw
    simp only [decode, List.nil_append, stop_test rest hs, if_true]
  | .unit, t, r, rest, fuel, hw, _, he, hs, hf => by
    obtain ⟨f, rfl⟩ : ∃ f, fuel = f + 1 := ⟨fuel - 1, by simp [sz] at hf; omega⟩
    simp only [encVal, Except.ok.injEq] at he; subst he
    cases t <;> simp only [wellTyped, Bool.false_eq_true] at hw
    simp only [decode, List.nil_append, stop_test rest hs, if_true]
  | .some v, t, r, rest, fuel, hw, hu, he, hs, hf => by
    obtain ⟨f, rfl⟩ : ∃ f, fuel = f + 1 := ⟨fuel - 1, by simp [sz] at hf; omega⟩
    cases t <;> simp only [wellTyped, Bool.false_eq_true] at hw
    rename_i t'
    have he' : encVal true v = .ok r := by simpa [encVal] using he
    have hne := encVal_some_ne v r hu he'
    have hu' : unamb true v = true := by simp only [unamb, Bool.and_eq_true] at hu; exact hu.2
    have hcl : Clean r := clean_encVal P.validUtf8 v t' r hw he'
    simp only [decode, clean_head_ne_amp r rest hcl hne, Bool.false_eq_true, if_false]
    rw [dec_val v t' r rest f hw hu' he' hs (by simp [sz] at hf; omega)]
    rfl
  | .newtype v, t, r, rest, fuel, hw, hu, he, hs, hf => by
    obtain ⟨f, rfl⟩ : ∃ f, fuel = f + 1 := ⟨fuel - 1, by simp [sz] at hf; omega⟩
    cases t <;> simp only [wellTyped, Bool.false_eq_true] at hw
    rename_i t'
    have he' : encVal true v = .ok r := by simpa [encVal] using he
    have hu' : unamb true v = true := by simpa [unamb] using hu
    simp only [decode]
    rw [dec_val v t' r rest f hw hu' he' hs (by simp [sz] at hf; omega)]
    rfl
  | .seq vs, t, r, rest, fuel, hw, hu, he, hs, hf => by
    obtain ⟨f, rfl⟩ : ∃ f, fuel = f + 1 := ⟨fuel - 1, by simp [sz] at hf; omega⟩
    have hcl : Clean r := clean_encVal P.validUtf8 (.seq vs) t r hw he
    cases t <;> simp only [wellTyped, Bool.false_eq_true, Bool.and_eq_true] at hw
    rename_i t'
    obtain ⟨rs, h1, rfl⟩ := encVal_seq vs r he
    have hcc := cleanC_encVals P.validUtf8 t' hw.1 vs rs hw.2 h1
    simp only [unamb, Bool.and_eq_true] at hu
    simp only [decode, sectionOr_value _ _ rest hcl hs, ok_bind]
    cases vs with
    | nil =>
      simp [encVal.encVals] at h1; subst h1
      simp [joinSeq]
    | cons v vs' =>
      cases rs with
      | nil =>
        cases h3 : encVal true v with
        | error e => simp [encVal.encVals, h3, bind, Except.bind] at h1
        | ok r1 =>
          cases h4 : encVal.encVals true vs' with
          | error e => simp [encVal.encVals, h3, h4, bind, Except.bind] at h1
          | ok rs' => simp [encVal.encVals, h3, h4, bind, Except.bind, pure, Except.pure] at h1
      | cons r1 rs' =>
        have hne : (joinSeq true (r1 :: rs')).isEmpty = false := by
          obtain ⟨r, rs'', h5, h6, h7⟩ := encVals_cons v vs' _ h1
          cases h7
          cases rs' with
          | cons r2 rs3 => simp [joinSeq]
          | nil =>
            have := encVals_nil vs' h6
            subst this
            have h8 := hu.1
            simp only [h5] at h8
            cases r1 with
            | nil => simp at h8
            | cons b bs => simp [joinSeq]
        simp only [hne, Bool.false_eq_true, if_false]
        rw [splitComma_join rs' r1 hcc]
        rw [dec_list (v :: vs') t' (r1 :: rs') [] f hw.2 hu.2 h1 (by simp [sz] at hf; omega)]
        simp
  | .floatText _, t, r, rest, fuel, hw, _, _, _, _ => by cases t <;> simp [wellTyped] at hw
  | .bytes _, t, r, rest, fuel, hw, _, _, _, _ => by cases t <;> simp [wellTyped] at hw
  | .defaulted, t, r, rest, fuel, hw, _, _, _, _ => by cases t <;> simp [wellTyped] at hw
  | .map _, t, r, rest, fuel, _, _, he, _, _ => by simp [encVal] at he
  | .struct _, t, r, rest, fuel, _, _, he, _, _ => by simp [encVal] at he
theorem dec_list : ∀ (vs : List Value) (t : Ty) (rs : List Bytes) (acc : List Value) (fuel : Nat),
    wellTyped.wtAll P.validUtf8 t vs = true → unamb.unambs true vs = true → encVal.encVals true vs = .ok rs →
    sz.szs vs + 1 ≤ fuel →
    seqLoop P false fuel t rs acc = .ok (acc ++ vs)
  | [], t, rs, acc, fuel, _, _, he, hf => by
    obtain ⟨f, rfl⟩ : ∃ f, fuel = f + 1 := ⟨fuel - 1, by omega⟩
    simp [encVal.encVals] at he; subst he
    simp [seqLoop]
  | v :: vs, t, rs, acc, fuel, hw, hu, he, hf => by
    obtain ⟨f, rfl⟩ : ∃ f, fuel = f + 1 := ⟨fuel - 1, by omega⟩
    simp only [wellTyped.wtAll, Bool.and_eq_true] at hw
    simp only [unamb.unambs, Bool.and_eq_true] at hu
    cases h1 : encVal true v with
    | error e => simp [encVal.encVals, h1, bind, Except.bind] at he
    | ok r1 =>
      cases h2 : encVal.encVals true vs with
      | error e => simp [encVal.encVals, h1, h2, bind, Except.bind] at he
      | ok rs' =>
        simp [encVal.encVals, h1, h2, bind, Except.bind, pure, Except.pure] at he
        subst he
        have hv := dec_val v t r1 [] f hw.1 hu.1 h1 (Or.inl rfl) (by simp [sz.szs] at hf; omega)
        rw [List.append_nil] at hv
        simp only [seqLoop, hv, ok_bind]
        rw [dec_list vs t rs' (acc ++ [v]) f hw.2 hu.2 h2 (by simp [sz.szs] at hf; omega)]
        simp
end

end Ohkami.Serde
