import OhkamiModel.P.Trie
namespace Ohkami

theorem stepStatic_append (a b : List (Route × Nat)) (s : Bytes) :
    stepStatic (a ++ b) s = stepStatic a s ++ stepStatic b s := by
  unfold stepStatic; simp [List.filterMap_append]

theorem stepParam_append (a b : List (Route × Nat)) :
    stepParam (a ++ b) = stepParam a ++ stepParam b := by
  unfold stepParam; simp [List.filterMap_append]

theorem stepStatic_prepend (l : List (Route × Nat)) (p : Seg) (s : Bytes) :
    stepStatic (l.map (fun rh => (p :: rh.1, rh.2))) s = if p = .static s then l else [] := by
  induction l with
  | nil => simp [stepStatic]
  | cons rh l ih =>
    have hc : stepStatic ((rh :: l).map (fun rh => (p :: rh.1, rh.2))) s =
        stepStatic [(p :: rh.1, rh.2)] s ++ stepStatic (l.map (fun rh => (p :: rh.1, rh.2))) s := by
      rw [← stepStatic_append]; rfl
    rw [hc, ih]
    cases p with
    | param => simp [stepStatic]
    | static x =>
      by_cases hx : x = s
      · subst hx; simp [stepStatic]
      · have : ¬ (Seg.static x = Seg.static s) := by intro h; exact hx (Seg.static.inj h)
        simp [stepStatic, hx, this]

theorem stepParam_prepend (l : List (Route × Nat)) (p : Seg) :
    stepParam (l.map (fun rh => (p :: rh.1, rh.2))) = if p = .param then l else [] := by
  induction l with
  | nil => simp [stepParam]
  | cons rh l ih =>
    have hc : stepParam ((rh :: l).map (fun rh => (p :: rh.1, rh.2))) =
        stepParam [(p :: rh.1, rh.2)] ++ stepParam (l.map (fun rh => (p :: rh.1, rh.2))) := by
      rw [← stepParam_append]; rfl
    rw [hc, ih]
    cases p with
    | param => simp [stepParam]
    | static x => simp [stepParam]

theorem findStatic_none_of_not_mem : ∀ (ks : List BNode) (s : Bytes), Seg.static s ∉ ks.map BNode.pat → findStatic ks s = none := by
  intro ks
  induction ks with
  | nil => intro s _; rfl
  | cons k ks ih =>
    intro s h
    simp only [List.map_cons, List.mem_cons, not_or] at h
    simp only [findStatic]
    rw [if_neg (fun e => h.1 e.symm)]
    exact ih s h.2

theorem findParam_none_of_not_mem : ∀ (ks : List BNode), Seg.param ∉ ks.map BNode.pat → findParam ks = none := by
  intro ks
  induction ks with
  | nil => intro _; rfl
  | cons k ks ih =>
    intro h
    simp only [List.map_cons, List.mem_cons, not_or] at h
    simp only [findParam]
    rw [if_neg (fun e => h.1 e.symm)]
    exact ih h.2

/-- the routes continuing with `static s` are exactly the routes of the child with that pattern -/
theorem stepStatic_kids : ∀ (ks : List BNode) (s : Bytes), (ks.map BNode.pat).Nodup →
    stepStatic (routesOfKids ks) s = (match findStatic ks s with | some k => routesOf k | none => []) := by
  intro ks
  induction ks with
  | nil => intro s _; simp [routesOfKids, stepStatic, findStatic]
  | cons k ks ih =>
    intro s hn
    simp only [List.map_cons, List.nodup_cons] at hn
    simp only [routesOfKids, stepStatic_append, stepStatic_prepend, findStatic]
    by_cases hp : k.pat = .static s
    · rw [if_pos hp, if_pos hp, ih s hn.2, findStatic_none_of_not_mem ks s (by rw [← hp]; exact hn.1)]
      simp
    · rw [if_neg hp, if_neg hp, ih s hn.2]; simp

theorem stepParam_kids : ∀ (ks : List BNode), (ks.map BNode.pat).Nodup →
    stepParam (routesOfKids ks) = (match findParam ks with | some k => routesOf k | none => []) := by
  intro ks
  induction ks with
  | nil => intro _; simp [routesOfKids, stepParam, findParam]
  | cons k ks ih =>
    intro hn
    simp only [List.map_cons, List.nodup_cons] at hn
    simp only [routesOfKids, stepParam_append, stepParam_prepend, findParam]
    by_cases hp : k.pat = .param
    · rw [if_pos hp, if_pos hp, ih hn.2, findParam_none_of_not_mem ks (by rw [← hp]; exact hn.1)]
      simp
    · rw [if_neg hp, if_neg hp, ih hn.2]; simp

theorem routesOf_mk (p : Seg) (h : Option Nat) (ks : List BNode) :
    routesOf (.mk p h ks) = (match h with | some x => [([], x)] | none => []) ++ routesOfKids ks := by
  cases h <;> simp [routesOf]

theorem stepStatic_node (p : Seg) (h : Option Nat) (ks : List BNode) (s : Bytes) (hn : (ks.map BNode.pat).Nodup) :
    stepStatic (routesOf (.mk p h ks)) s = (match findStatic ks s with | some k => routesOf k | none => []) := by
  rw [routesOf_mk, stepStatic_append, stepStatic_kids ks s hn]
  cases h <;> simp [stepStatic]

theorem stepParam_node (p : Seg) (h : Option Nat) (ks : List BNode) (hn : (ks.map BNode.pat).Nodup) :
    stepParam (routesOf (.mk p h ks)) = (match findParam ks with | some k => routesOf k | none => []) := by
  rw [routesOf_mk, stepParam_append, stepParam_kids ks hn]
  cases h <;> simp [stepParam]

theorem findStatic_mem : ∀ {ks : List BNode} {s : Bytes} {k : BNode}, findStatic ks s = some k → k ∈ ks ∧ k.pat = .static s := by
  intro ks
  induction ks with
  | nil => intro s k h; simp [findStatic] at h
  | cons k0 ks ih =>
    intro s k h
    simp only [findStatic] at h
    split at h
    next hp => simp at h; subst h; exact ⟨by simp, hp⟩
    next => obtain ⟨h1, h2⟩ := ih h; exact ⟨by simp [h1], h2⟩

theorem findParam_mem : ∀ {ks : List BNode} {k : BNode}, findParam ks = some k → k ∈ ks ∧ k.pat = .param := by
  intro ks
  induction ks with
  | nil => intro k h; simp [findParam] at h
  | cons k0 ks ih =>
    intro k h
    simp only [findParam] at h
    split at h
    next hp => simp at h; subst h; exact ⟨by simp, hp⟩
    next => obtain ⟨h1, h2⟩ := ih h; exact ⟨by simp [h1], h2⟩

theorem KInv_mem : ∀ {ks : List BNode}, KInv ks → ∀ {k}, k ∈ ks → TInv k ∧ routesOf k ≠ [] ∧ k.pat ≠ .static [] := by
  intro ks
  induction ks with
  | nil => intro _ k hk; simp at hk
  | cons k0 ks ih =>
    intro h k hk
    simp only [KInv] at h
    simp only [List.mem_cons] at hk
    rcases hk with rfl | hk
    · exact ⟨h.1, h.2.1, h.2.2.1⟩
    · exact ih h.2.2.2 hk

theorem TInv_mk {p h ks} : TInv (.mk p h ks) ↔ KInv ks ∧ (ks.map BNode.pat).Nodup := by
  simp [TInv]

end Ohkami
