/-! C20: `ohkami_lib::num::itoa` — the 19-level unrolled macro as a recursive function, against canonical decimal. -/
namespace Ohkami.Num

-- unroll!(d, d+1, …, 19): digits pushed (most significant first) and the reduced `n`
def go : Nat → Nat → Nat → List Nat × Nat
  | 0, _, n => ([], n)
  | fuel + 1, d, n =>
    if d ≤ 19 ∧ n ≥ 10 ^ d then
      let r := go fuel (d + 1) n
      let q := r.2 / 10 ^ d
      (r.1 ++ [q], r.2 - 10 ^ d * q)
    else ([], n)

def itoaDigits (n : Nat) : List Nat := let r := go 19 1 n; r.1 ++ [r.2]

/-! spec: canonical big-endian decimal digits -/
def digitsBE (n : Nat) : List Nat := if h : n < 10 then [n] else digitsBE (n / 10) ++ [n % 10]
termination_by n
decreasing_by omega

-- digits of the part above position `d`; nothing if that part is zero
def digitsAbove (m : Nat) : List Nat := if m = 0 then [] else digitsBE m

theorem digitsAbove_step (m : Nat) (h : 1 ≤ m) : digitsAbove m = digitsAbove (m / 10) ++ [m % 10] := by
  unfold digitsAbove
  rw [if_neg (by omega)]
  rw [digitsBE]
  by_cases h10 : m < 10
  · have : m / 10 = 0 := by omega
    simp [h10, this]; omega
  · have : m / 10 ≠ 0 := by omega
    simp [h10, this]

theorem go_spec : ∀ (fuel d n : Nat), 1 ≤ d → 20 ≤ fuel + d → n < 10 ^ 20 →
    (go fuel d n).1 = digitsAbove (n / 10 ^ d) ∧ (go fuel d n).2 = n % 10 ^ d ∧ ∀ q ∈ (go fuel d n).1, q < 10 := by
  intro fuel
  induction fuel with
  | zero =>
    intro d n hd hf hn
    have : 10 ^ 20 ≤ 10 ^ d := Nat.pow_le_pow_right (by decide) (by omega)
    have hlt : n < 10 ^ d := by omega
    simp [go, digitsAbove, Nat.div_eq_of_lt hlt, Nat.mod_eq_of_lt hlt]
  | succ f ih =>
    intro d n hd hf hn
    simp only [go]
    by_cases hc : d ≤ 19 ∧ n ≥ 10 ^ d
    · rw [if_pos hc]
      obtain ⟨h1, h2, h3⟩ := ih (d + 1) n (by omega) (by omega) hn
      have hpos : 0 < 10 ^ d := Nat.pow_pos (by decide)
      have hpow : 10 ^ (d + 1) = 10 ^ d * 10 := Nat.pow_succ 10 d
      have hq : (go f (d + 1) n).2 / 10 ^ d = n / 10 ^ d % 10 := by
        rw [h2, hpow, Nat.mod_mul_right_div_self]
      have hm1 : 1 ≤ n / 10 ^ d := (Nat.le_div_iff_mul_le hpos).mpr (by simpa using hc.2)
      refine ⟨?_, ?_, ?_⟩
      · simp only
        rw [hq, h1, digitsAbove_step _ hm1]
        congr 2
        rw [hpow, Nat.div_div_eq_div_mul]
      · simp only
        rw [← Nat.mod_def, h2, hpow]
        exact Nat.mod_mul_right_mod n (10 ^ d) 10
      · intro q hqm
        simp only [List.mem_append, List.mem_singleton] at hqm
        rcases hqm with hqm | rfl
        · exact h3 q hqm
        · rw [hq]; exact Nat.mod_lt _ (by decide)
    · rw [if_neg hc]
      have hlt : n < 10 ^ d := by
        by_cases hd19 : d ≤ 19
        · have : ¬ n ≥ 10 ^ d := fun h => hc ⟨hd19, h⟩
          omega
        · have : 10 ^ 20 ≤ 10 ^ d := Nat.pow_le_pow_right (by decide) (by omega)
          omega
      simp [digitsAbove, Nat.div_eq_of_lt hlt, Nat.mod_eq_of_lt hlt]

/-- `itoa` writes the canonical decimal digits, each a single digit (so `b'0' + q as u8` is a digit), for every `usize` -/
theorem itoa_exact (n : Nat) (hn : n < 2 ^ 64) : itoaDigits n = digitsBE n ∧ ∀ q ∈ itoaDigits n, q < 10 := by
  have hn' : n < 10 ^ 20 := by
    have : (2 : Nat) ^ 64 < 10 ^ 20 := by decide
    omega
  obtain ⟨h1, h2, h3⟩ := go_spec 19 1 n (by decide) (by decide) hn'
  unfold itoaDigits
  simp only [h1, h2, Nat.pow_one]
  constructor
  · rw [digitsBE]
    by_cases h10 : n < 10
    · have : n / 10 = 0 := by omega
      simp [h10, digitsAbove, this, Nat.mod_eq_of_lt h10]
    · have : n / 10 ≠ 0 := by omega
      simp [h10, digitsAbove, this]
  · intro q hq
    simp only [List.mem_append, List.mem_singleton] at hq
    rcases hq with hq | rfl
    · rw [← h1] at hq; exact h3 q hq
    · exact Nat.mod_lt _ (by decide)

example : itoaDigits 18446744073709551615 = [1,8,4,4,6,7,4,4,0,7,3,7,0,9,5,5,1,6,1,5] := by decide +kernel
example : itoaDigits 0 = [0] := by decide

end Ohkami.Num
