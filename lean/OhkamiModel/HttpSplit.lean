import OhkamiModel.HttpSound
/-! C06: the parsed request does not depend on where the first read ends (helper lemmas and proofs; statements repeated in Proofs/C06.lean) -/
namespace Ohkami.Http
open Ohkami.P

/-- the header loop reads back any list of accepted-shape lines (`LineOK`: the lenient shape of `parse_sound`) -/
theorem headers_shape : ∀ (hs : List (Bytes × Bytes)), (∀ kv ∈ hs, LineOK kv) →
    ∀ (fuel : Nat) (rest : Bytes) (std : List (Nat × Bytes)) (cus : List (Bytes × Bytes)), hs.length < fuel →
    headers fuel (encodeHeaders hs ++ [CR, LF] ++ rest) std cus =
      .ok ((hs.foldl stepH (std, cus)).1, (hs.foldl stepH (std, cus)).2, rest) := by
  intro hs
  induction hs with
  | nil =>
    intro _ fuel rest std cus hf
    cases fuel with
    | zero => simp at hf
    | succ f => simp [headers, encodeHeaders, consume]
  | cons kv hs ih =>
    intro hwf fuel rest std cus hf
    cases fuel with
    | zero => simp at hf
    | succ f =>
      obtain ⟨k, v⟩ := kv
      obtain ⟨hk, hv, hu1, hu2, hstart, hnm⟩ := hwf (k, v) (by simp)
      simp only at hk hv hu1 hu2 hstart hnm
      have ih' := ih (fun x hx => hwf x (by simp [hx])) f rest
      have e1 : encodeHeaders ((k, v) :: hs) ++ [CR, LF] ++ rest
          = k ++ COLON :: (SP :: (v ++ CR :: (LF :: (encodeHeaders hs ++ [CR, LF] ++ rest)))) := by
        simp [encodeHeaders]
      rw [e1]
      have hnc : consume [CR, LF] (k ++ COLON :: (SP :: (v ++ CR :: (LF :: (encodeHeaders hs ++ [CR, LF] ++ rest))))) = none := by
        unfold consume at hstart ⊢
        split at hstart
        · cases hstart
        · rename_i hnp
          split
          · rename_i hp
            exfalso; apply hnp
            -- a two-byte prefix of k ++ ':' :: … lies within k ++ [':'] (which has at least one byte)
            cases k with
            | nil => simp [List.isPrefixOf, CR, COLON] at hp
            | cons a t =>
              cases t with
              | nil => simp [List.isPrefixOf] at hp ⊢; exact hp
              | cons b t' => simp [List.isPrefixOf] at hp ⊢; exact hp
          · rfl
      have hrk := readWhile_append (· != COLON) k COLON (SP :: (v ++ CR :: (LF :: (encodeHeaders hs ++ [CR, LF] ++ rest))))
        (by intro b hb; simpa using hk b hb) (by simp)
      have hrv := readWhile_append (· != CR) v CR (LF :: (encodeHeaders hs ++ [CR, LF] ++ rest))
        (by intro b hb; simpa using hv b hb) (by simp)
      have c1 : consume [COLON, SP] (COLON :: SP :: (v ++ CR :: LF :: (encodeHeaders hs ++ [CR, LF] ++ rest)))
          = some (v ++ CR :: LF :: (encodeHeaders hs ++ [CR, LF] ++ rest)) := consume_append [COLON, SP] _
      have c2 : consume [CR, LF] (CR :: LF :: (encodeHeaders hs ++ [CR, LF] ++ rest))
          = some (encodeHeaders hs ++ [CR, LF] ++ rest) := consume_append [CR, LF] _
      rw [headers]
      simp only [hnc, hrk, c1, hrv, hu1, hu2, hnm, Bool.and_self, Bool.not_true, Bool.false_eq_true, if_false, c2]
      simp only [List.foldl_cons, stepH]
      cases hsi : stdIndex k with
      | some i => simp only; exact ih' _ _ (by simp at hf; omega)
      | none => simp only; exact ih' _ _ (by simp at hf; omega)

end Ohkami.Http

namespace Ohkami.Http
open Ohkami.P

/-- the body decision of `read_payload`, in one piece: it depends only on the concatenation of what is left of the first read and
what the stream still holds -/
def bodyStep (method : String) (np : Bytes) (q : Option Bytes) (std : List (Nat × Bytes)) (cus : List (Bytes × Bytes)) (stream : Bytes) : Outcome Parsed :=
  match std.find? (·.1 = Gen.contentLengthIndex) with
  | none => .ok ⟨method, np, q, std, cus, none⟩
  | some (_, v) =>
    if v.isEmpty || !v.all isDigit then .reject 400 else
    let len := if decimal v > USIZE_MAX then USIZE_MAX else decimal v
    if len = 0 then .ok ⟨method, np, q, std, cus, none⟩
    else if len ≥ PAYLOAD_LIMIT then .reject 413
    else if len ≤ stream.length then .ok ⟨method, np, q, std, cus, some (stream.take len)⟩
    else .close

theorem finish_canon (method : String) (np : Bytes) (q : Option Bytes) (r6 more : Bytes) :
    finish method np q r6 more = (match headers (r6.length + 1) r6 [] [] with
      | .ok (std, cus, remaining) => bodyStep method np q std cus (remaining ++ more)
      | .reject s => .reject s
      | .close => .close
      | .panic s => .panic s) := by
  unfold finish
  cases hh : headers (r6.length + 1) r6 [] [] with
  | reject s => rfl
  | close => rfl
  | panic s => rfl
  | ok t =>
    obtain ⟨std, cus, remaining⟩ := t
    simp only [bodyStep]
    cases hcl : std.find? (·.1 = Gen.contentLengthIndex) with
    | none => rfl
    | some kv =>
      obtain ⟨i, v⟩ := kv
      simp only
      by_cases hbad : (v.isEmpty || !v.all isDigit) = true
      · simp [hbad]
      · have hbad' : (v.isEmpty || !v.all isDigit) = false := by simpa using hbad
        simp only [hbad', Bool.false_eq_true, if_false]
        generalize (if decimal v > USIZE_MAX then USIZE_MAX else decimal v) = len
        by_cases h0 : len = 0
        · simp [h0]
        · simp only [h0, if_false]
          by_cases hlim : len ≥ PAYLOAD_LIMIT
          · simp [hlim]
          · simp only [hlim, if_false]
            by_cases hr0 : remaining.length = 0
            · have hrn : remaining = [] := List.length_eq_zero_iff.mp hr0
              subst hrn
              simp only [List.length_nil, if_true, List.nil_append]
            · simp only [hr0, if_false]
              by_cases hle : len ≤ remaining.length
              · have : len ≤ (remaining ++ more).length := by simp only [List.length_append]; omega
                simp only [hle, this, if_true, List.take_append_of_le_length hle]
              · simp only [hle, if_false]
                by_cases hm : more.length ≥ len - remaining.length
                · have : len ≤ (remaining ++ more).length := by simp only [List.length_append]; omega
                  simp only [hm, this, if_true]
                  rw [List.take_append]
                  have : List.take len remaining = remaining := List.take_of_length_le (by omega)
                  rw [this]
                · have : ¬ len ≤ (remaining ++ more).length := by simp only [List.length_append]; omega
                  simp only [hm, this, if_false]

/-- **where the first read ends does not matter to the body**: with the head complete, bytes may sit at the end of the first read or
at the front of the stream -/
theorem finish_split (method : String) (np : Bytes) (q : Option Bytes) (hs : List (Bytes × Bytes)) (hl : ∀ kv ∈ hs, LineOK kv) (rem x y : Bytes) :
    finish method np q (encodeHeaders hs ++ [CR, LF] ++ (rem ++ x)) y = finish method np q (encodeHeaders hs ++ [CR, LF] ++ rem) (x ++ y) := by
  rw [finish_canon, finish_canon]
  have hlen := encodeHeaders_length hs
  rw [headers_shape hs hl _ (rem ++ x) [] [] (by simp only [List.length_append]; omega)]
  rw [headers_shape hs hl _ rem [] [] (by simp only [List.length_append]; omega)]
  simp only [List.append_assoc]

end Ohkami.Http

namespace Ohkami.Http
open Ohkami.P

/-- the request line is read back from its shape, whatever follows it -/
theorem parse_shape (m path : Bytes) (query : Option Bytes) (method : String) (r6 more : Bytes)
    (hm : methodOf m = some method) (hmsp : ∀ b ∈ m, b ≠ SP)
    (hsl : path.head? = some SLASH) (hpc : ∀ b ∈ path, b ≠ SP ∧ b ≠ QM) (hu : validUtf8 path = true)
    (hq : ∀ q, query = some q → ∀ b ∈ q, b ≠ SP) :
    parse (m ++ SP :: (path ++ queryBytes query ++ SP :: (HTTP11 ++ r6))) more =
      finish method (if path.getLast? == some SLASH then path.dropLast else path) query r6 more := by
  unfold parse
  rw [readWhile_append (· != SP) m SP _ (by intro b hb; simpa using hmsp b hb) (by simp)]
  simp only [hm]
  have hsp : (SP != SP) = false := by decide
  simp only [hsp, Bool.false_eq_true, if_false]
  have hpathp : ∀ b ∈ path, (b != SP && b != QM) = true := by
    intro b hb; have := hpc b hb; simp [this.1, this.2]
  have hqs : (QM == SP) = false := by decide
  have hqm1 : (SP != SP && SP != QM) = false := by decide
  have hqm2 : (QM != SP && QM != QM) = false := by decide
  cases hqq : query with
  | none =>
    have hstep : readWhile (fun b => b != SP && b != QM) (path ++ queryBytes none ++ SP :: (HTTP11 ++ r6)) = (path, SP :: (HTTP11 ++ r6)) := by
      simp only [queryBytes, List.append_nil]
      exact readWhile_append (fun b => b != SP && b != QM) path SP _ hpathp hqm1
    rw [hstep]
    simp only [hsl, bne_self_eq_false, Bool.false_eq_true, if_false, hu, Bool.not_true, beq_self_eq_true, if_true, consume_append HTTP11]
  | some q =>
    have hstep : readWhile (fun b => b != SP && b != QM) (path ++ queryBytes (some q) ++ SP :: (HTTP11 ++ r6)) = (path, QM :: (q ++ SP :: (HTTP11 ++ r6))) := by
      simp only [queryBytes, List.append_assoc, List.cons_append]
      exact readWhile_append (fun b => b != SP && b != QM) path QM _ hpathp hqm2
    rw [hstep]
    simp only [hsl, bne_self_eq_false, Bool.false_eq_true, if_false, hu, Bool.not_true, hqs, beq_self_eq_true, if_true]
    rw [readWhile_append (· != SP) q SP _ (by intro b hb; simpa using hq q hqq b hb) (by simp)]
    simp only [List.drop_succ_cons, List.drop_zero, consume_append HTTP11]

/-- **The parsed request does not depend on where the first read ends**, as long as the head is complete in it: bytes of the body may
arrive with the head or later. -/
theorem parse_split (f x y : Bytes) (p : Parsed) (h : parse f (x ++ y) = .ok p) : parse (f ++ x) y = .ok p := by
  obtain ⟨m, path, query, hs, rem, hf, hm, hmsp, hsl, hpc, hu, _, _, hq, hl, _, _⟩ := parse_sound' f (x ++ y) p h
  have e1 : f ++ x = m ++ SP :: (path ++ queryBytes query ++ SP :: (HTTP11 ++ (encodeHeaders hs ++ [CR, LF] ++ (rem ++ x)))) := by
    rw [hf]; simp
  rw [hf, parse_shape m path query p.method _ _ hm hmsp hsl hpc hu hq] at h
  rw [e1, parse_shape m path query p.method _ _ hm hmsp hsl hpc hu hq, finish_split _ _ _ hs hl]
  exact h

end Ohkami.Http
