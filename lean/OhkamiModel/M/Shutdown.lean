/-! C18 model (ohkami/src/ohkami/mod.rs, `mod sync`): the interrupt handler against `UntilInterrupt::poll` over the two
atomics CATCH / WAKER, with a reactor that may wake the accept loop at any time (a connection arrives, or spuriously);
connections that arrive at any time;
and the `WaitGroup` counter on which `howl` waits. -/
namespace Ohkami.Shutdown2

/-- handler: h0 `CATCH.store(true)`; h1 `w := WAKER.swap(null)`; h2 `if w != null { wake }` -/
inductive HPc where | h0 | h1 | h2 | hDone
deriving DecidableEq, Repr
/-- poll: p0 the poll begins: look at CATCH (since the repair `flagFirst`), then poll `accept()`; p1 `accept()` was `Pending`, about to load CATCH;
p2 loaded `false`, about to swap the waker in; p3 waker published, about to re-check CATCH (the repair `fixed`); pending: returned `Pending`;
returnedNone: returned `Ready(None)` -/
inductive PPc where | p0 | p1 | p2 | p3 | pending | returnedNone
deriving DecidableEq, Repr

structure St where
  catch_ : Bool
  waker : Bool            -- WAKER is non-null
  taken : Bool            -- the handler's local `waker` is non-null
  hpc : HPc
  ppc : PPc
  wakePending : Bool      -- the task has been woken and will be polled again
  conn : Bool             -- a connection is waiting to be accepted
deriving DecidableEq, Repr

/-- the first poll begins, the handler has not started -/
def init : St := ⟨false, false, false, .h0, .p0, false, false⟩

inductive Who where | handler | poller | reactor | arrive
deriving DecidableEq, Repr

/-- `fixed = true`: the code with the re-check after publishing the waker; `false`: the code as it was.
    `flagFirst = true`: the poll looks at CATCH before it polls `accept()`; `false`: the code as it was (a ready connection is taken
    without a look at the flag) -/
def step (fixed flagFirst : Bool) (s : St) : Who → Option St
  | .handler =>
    match s.hpc with
    | .h0 => some { s with catch_ := true, hpc := .h1 }
    | .h1 => some { s with taken := s.waker, waker := false, hpc := .h2 }
    | .h2 => some { s with wakePending := s.wakePending || s.taken, hpc := .hDone }
    | .hDone => none
  | .poller =>
    match s.ppc with
    | .p0 =>
      if flagFirst && s.catch_ then some { s with ppc := .returnedNone }
      else if s.conn then some { s with conn := false, ppc := .p0 }        -- `Ready(Some(connection))`: a session is spawned, the loop polls again
      else some { s with ppc := .p1 }
    | .p1 => if s.catch_ then some { s with ppc := .returnedNone } else some { s with ppc := .p2 }
    | .p2 => some { s with waker := true, ppc := if fixed then .p3 else .pending }
    | .p3 => if s.catch_ then some { s with ppc := .returnedNone } else some { s with ppc := .pending }
    | .pending => if s.wakePending then some { s with wakePending := false, ppc := .p0 } else none
    | .returnedNone => none
  | .reactor =>
    -- a spurious wake
    match s.ppc with
    | .pending => if s.wakePending then none else some { s with wakePending := true }
    | _ => none
  | .arrive =>
    -- a connection arrives; `accept()` registered the task's waker when it was polled `Pending`, so the task is woken from then on
    if s.conn then none else
    match s.ppc with
    | .p0 => some { s with conn := true }
    | .returnedNone => some { s with conn := true }
    | _ => some { s with conn := true, wakePending := true }

def reach (fixed flagFirst : Bool) : Nat → List St → List St
  | 0, acc => acc
  | fuel + 1, acc =>
    let next := acc.flatMap fun s => [step fixed flagFirst s .handler, step fixed flagFirst s .poller, step fixed flagFirst s .reactor,
      step fixed flagFirst s .arrive].filterMap id
    reach fixed flagFirst fuel ((acc ++ next).eraseDups)

/-- nothing that is guaranteed to happen can happen any more (the reactor is not guaranteed to act: no connection may ever arrive) -/
def quiescent (fixed flagFirst : Bool) (s : St) : Bool := (step fixed flagFirst s .handler).isNone && (step fixed flagFirst s .poller).isNone

/-- the interrupt was delivered completely, nothing can move, and the accept loop is still waiting -/
def lost (fixed flagFirst : Bool) (s : St) : Bool := quiescent fixed flagFirst s && s.hpc == .hDone && s.ppc != .returnedNone

def closed (fixed flagFirst : Bool) (l : List St) : Bool :=
  l.all fun s => [step fixed flagFirst s .handler, step fixed flagFirst s .poller, step fixed flagFirst s .reactor, step fixed flagFirst s .arrive].all fun o =>
    match o with | some s' => l.contains s' | none => true

inductive Reachable (fixed flagFirst : Bool) : St → Prop
  | init : Reachable fixed flagFirst init
  | step (s s' : St) (w : Who) : Reachable fixed flagFirst s → step fixed flagFirst s w = some s' → Reachable fixed flagFirst s'

/-- the accept loop under load: before each of its steps a connection may arrive (`true` in the pattern) -/
def runLoad (fixed flagFirst : Bool) : St → List Bool → St
  | s, [] => s
  | s, b :: rest =>
    let s := if b then (step fixed flagFirst s .arrive).getD s else s
    runLoad fixed flagFirst ((step fixed flagFirst s .poller).getD s) rest

def patterns : Nat → List (List Bool)
  | 0 => [[]]
  | n + 1 => (patterns n).flatMap fun p => [true :: p, false :: p]

/-! ### WaitGroup -/
inductive WOp where | add | done | poll
deriving DecidableEq, Repr

/-- `add` = fetch_add(1); `done` = drop = fetch_sub(1) (on `usize`: wraps below zero); `poll` = `load == 0` -/
def wstep (c : Nat) : WOp → Nat × Option Bool
  | .add => (c + 1, none)
  | .done => ((c + 2 ^ 64 - 1) % 2 ^ 64, none)
  | .poll => (c, some (c == 0))

def wrun : Nat → List WOp → List Bool
  | _, [] => []
  | c, op :: ops => match wstep c op with
    | (c', some r) => r :: wrun c' ops
    | (c', none) => wrun c' ops

def wcount : Nat → List WOp → Nat
  | c, [] => c
  | c, op :: ops => wcount (wstep c op).1 ops

end Ohkami.Shutdown2
