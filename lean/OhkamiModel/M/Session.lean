import OhkamiModel.M.HttpObs
import OhkamiModel.GenConsts
/-! C05 / C06 model: the keep-alive loop of `Session::manage` (ohkami/src/session/mod.rs) over a scripted connection.
The connection is a list of chunks (what each `read` finds available; a chunk longer than the destination is
delivered over consecutive reads) and a flag saying whether the peer closes after them.  `Request::clear`, `Request::read`
(one `read` into the 1 KiB buffer, the head parsed from exactly the bytes read, the body completed by `read_exact`),
the handler, `send`; a refused request is answered and ends the session. -/
namespace Ohkami.Session
open Ohkami Ohkami.Http

structure Conn where
  chunks : List Bytes
  eof : Bool
deriving Repr

/-- `stream.read(&mut buf)`: the bytes one read returns (at most `cap`), and the connection afterwards; `none` = nothing left -/
def readSome (cap : Nat) : List Bytes → Option (Bytes × List Bytes)
  | [] => none
  | c :: rest =>
    if c.isEmpty then readSome cap rest
    else if c.length ≤ cap then some (c, rest) else some (c.take cap, c.drop cap :: rest)

/-- `read_exact(n)`: exactly `n` bytes across chunks -/
def readExact : Nat → List Bytes → Option (Bytes × List Bytes)
  | 0, cs => some ([], cs)
  | _ + 1, [] => none
  | n + 1, c :: rest =>
    if c.length ≥ n + 1 then some (c.take (n + 1), if c.length = n + 1 then rest else c.drop (n + 1) :: rest)
    else (readExact (n + 1 - c.length) rest).map fun (b, r) => (c ++ b, r)
termination_by n cs => cs.length
decreasing_by all_goals simp_wf <;> omega

def CRLFCRLF : Bytes := [13, 10, 13, 10]

/-- length of the head: up to and including the first blank line -/
def headLen : Bytes → Nat
  | [] => 0
  | b :: rest => if CRLFCRLF.isPrefixOf (b :: rest) then 4 else 1 + headLen rest

/-- how many bytes of the first read lie after the head: the reader's position when the header loop ends (the same steps as `Http.parse`) -/
def remLen (first : Bytes) : Nat :=
  let r0 := (P.readWhile (· != P.SP) first).2
  match r0 with
  | _ :: r1 =>
    let r2 := (P.readWhile (fun b => b != P.SP && b != Http.QM) r1).2
    let r5 : Bytes := match r2 with
      | c :: r3 => if c == P.SP then r3 else ((P.readWhile (· != P.SP) r3).2).drop 1
      | [] => []
    match P.consume Http.HTTP11 r5 with
    | some r6 => (match Http.headers (r6.length + 1) r6 [] [] with | .ok (_, _, rem) => rem.length | _ => 0)
    | none => 0
  | [] => 0

/-- how many bytes `read_payload` still takes from the stream after the first read: the announced body minus what came with the head -/
def needOf (first : Bytes) (p : Parsed) : Nat :=
  match p.payload with
  | some b => b.length - min b.length (remLen first)
  | none => 0

/-- the per-request state of the reused `Request` object that a handler could observe -/
structure Residue where
  parsed : Option Parsed        -- fields left by an earlier request (none = as after `init`)
  buf0 : UInt8                  -- first byte of the buffer (what `clear` tests)
deriving Repr

/-- `Request::clear`: only when the buffer does not start with NUL -/
def clear (r : Residue) : Residue := if r.buf0 != 0 then { r with parsed := none } else r

/-- connClose: ended after a `Connection: close` response; none: `read` returned `Ok(None)` (end of stream, unknown method, body cut short) -/
inductive End where | connClose | none | stalled | fuelOut
deriving Repr, DecidableEq

structure App where
  respond : Option Parsed → Parsed → Bytes       -- router.handle + send: may look at the residue (it must not matter)
  reject : Nat → Bytes                           -- the error response of a refused request

/-- `str::trim` on ASCII text: blanks, tabs and line ends off both ends -/
def isWs (b : UInt8) : Bool := b == 32 || b == 9 || b == 10 || b == 13 || b == 12 || b == 11
def trimAscii (v : Bytes) : Bytes := ((v.dropWhile isWs).reverse.dropWhile isWs).reverse
def lowerAscii (b : UInt8) : UInt8 := if 65 ≤ b && b ≤ 90 then b + 32 else b
def splitOnComma : Bytes → List Bytes
  | [] => [[]]
  | b :: t => match splitOnComma t with
    | [] => [[b]]          -- (not reached)
    | hd :: tl => if b == 44 then [] :: hd :: tl else (b :: hd) :: tl

/-- the request asks to end the connection: `Connection` is a list of case-insensitive options (RFC 9110 7.6.1) and one of them is `close` -/
def wantsClose (p : Parsed) : Bool :=
  match getStd p ((Gen.reqHeaderNames.map (·.1)).idxOf "Connection") with
  | some v => (splitOnComma v).any fun o => (trimAscii o).map lowerAscii == [99, 108, 111, 115, 101]      -- "close"
  | none => false

/-- the loop; returns the responses written, in order, and how the session ended -/
def run (app : App) : Nat → Residue → Conn → List Bytes × End
  | 0, _, _ => ([], .fuelOut)
  | fuel + 1, res, conn =>
    let res := clear res
    match readSome Gen.BUF_SIZE conn.chunks with
    | none => ([], if conn.eof then .none else .stalled)
    | some (first, rest) =>
      let res := { res with buf0 := first.headD 0 }
      let more := rest.flatten
      -- how many bytes `read_payload` takes from the stream
      match parse first more with
      | .close =>
        -- either the method is unknown (the server closes), or the announced body did not arrive
        -- (the peer closed early; with an open connection it is a wait for input that has not arrived)
        if (methodOf (P.readWhile (· != P.SP) first).1).isNone then ([], .none)
        else ([], if conn.eof then .none else .stalled)
      | .panic _ => ([], .none)
      | .reject status =>
        -- a refused request is answered and the session ends: where the request ends is not known, so nothing after it may be read as a request
        ([app.reject status], .connClose)
      | .ok p =>
        match readExact (needOf first p) rest with
        | none => ([], if conn.eof then .none else .stalled)
        | some (_, rest') =>
          let out := app.respond res.parsed p
          if wantsClose p then ([out], .connClose)
          else
            let (outs, e) := run app fuel { res with parsed := some p } ⟨rest', conn.eof⟩
            (out :: outs, e)

end Ohkami.Session
