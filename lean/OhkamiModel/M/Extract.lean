import OhkamiModel.P.SerdePrims
/-! C07 model: typed path params (`FromParam::from_raw_param`, ohkami/src/request/from_request.rs), the Content-Type gate of the
body extractors (exact media type, as repaired), the `Option` rule, and the shape "extract everything, call the handler iff
all items were produced" of `IntoHandler`.  The body / query codecs are parameters here (their outcome comes with the
case): they are the models of C08–C10, JSON is serde_json. -/
namespace Ohkami.Extract
open Ohkami Ohkami.Serde.Concrete

inductive PTy where
  | uint (bits : Nat) | sint (bits : Nat) | string | str | cow
deriving Repr, DecidableEq

inductive PVal where
  | int (z : Int) | text (t : Bytes)
deriving Repr, DecidableEq

/-- `from_raw_param`: percent-decode, UTF-8 check, then the type's `from_param`; `none` = error response (500) -/
def fromParam (ty : PTy) (raw : Bytes) : Option PVal :=
  let dec := Percent.decode raw
  if !Http.validUtf8 dec then none else
  match ty with
  | .string | .cow => some (.text dec)
  | .str => if dec == raw then some (.text dec) else none        -- `&str` cannot hold a decoded (owned) value
  | .uint bits => (parseInt false bits dec).map .int
  | .sint bits => (parseInt true bits dec).map .int

/-- what one extractor finds: absent (`None` of `from_request`), a value, or a decoding error -/
inductive Found where
  | absent | ok (echo : Bytes) | err
deriving Repr, DecidableEq

def trimStart : Bytes → Bytes
  | 32 :: r => trimStart r
  | 9 :: r => trimStart r
  | r => r

def lowerB (b : UInt8) : UInt8 := if 65 ≤ b && b ≤ 90 then b + 32 else b

/-- the Content-Type gate of `impl FromRequest for B: FromBody`: the header must name exactly the extractor's media type — in any letter case
    (type and subtype are case-insensitive, RFC 9110 8.3.1) -/
def gate (mime : Bytes) (contentType : Option Bytes) (payload : Option Bytes) (decode : Bytes → Option Bytes) : Found :=
  match contentType with
  | none => .absent
  | some ct =>
    if !((ct.take mime.length).map lowerB == mime.map lowerB) then .absent else
    let rest := trimStart (ct.drop mime.length)
    if !(rest.isEmpty || rest.head? == some 59) then .absent else
    match payload with
    | none => .absent
    | some body => match decode body with | some e => .ok e | none => .err

/-- one declared item: required or `Option<_>` -/
structure Item where
  optional : Bool
  found : Found

inductive Outcome where
  | ran (params : List PVal) (items : List (Option Bytes))     -- the handler ran with these values (`none` = an absent optional item)
  | status (code : Nat)
deriving Repr, DecidableEq

def itemValue (it : Item) : Except Nat (Option Bytes) :=
  match it.found, it.optional with
  | .ok e, _ => .ok (some e)
  | .err, _ => .error 400
  | .absent, true => .ok none
  | .absent, false => .error 400          -- "missing something expected in request"

/-- `IntoHandler`: params first (in order), then the items (in order); the first failure is the response; the handler runs iff none -/
def handle (ptys : List PTy) (captures : List Bytes) (items : List Item) : Outcome :=
  let ps := (ptys.zip captures).map fun (t, c) => fromParam t c
  if ps.length < ptys.length then .status 500 else       -- cannot happen: start-up checks that the route captures enough params
  if ps.any (·.isNone) then .status 500 else
  match items.mapM itemValue with
  | .error c => .status c
  | .ok vs => .ran (ps.filterMap id) vs

end Ohkami.Extract
