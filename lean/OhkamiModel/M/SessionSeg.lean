import OhkamiModel.HttpSplit
import OhkamiModel.M.SessionOne
/-! C06: responses are a function of the byte stream — the loop over any segmentation of the bodies (helper lemmas and proofs) -/
namespace Ohkami.Session
open Ohkami Ohkami.Http

/-- a request as it arrives: the first read `f` (holding the whole head, at most the buffer) and the rest of its body in any pieces -/
abbrev Seg := Bytes × List Bytes

def chunksOf (segs : List Seg) : List Bytes := segs.flatMap fun s => s.1 :: s.2

/-- the bytes of the request, whatever the segmentation -/
def Seg.bytes (s : Seg) : Bytes := s.1 ++ s.2.flatten

/-- the segments hold one complete request and nothing else; its head is within the first read -/
def SegExact (s : Seg) : Prop :=
  s.1 ≠ [] ∧ s.1.length ≤ BUF ∧ (∀ x ∈ s.2, x ≠ []) ∧ match parse s.1 s.2.flatten with
    | .ok p => needOf s.1 p = s.2.flatten.length
    | .reject _ => s.2 = []
    | _ => False

theorem readExact_pieces : ∀ (ps : List Bytes) (rest : List Bytes), (∀ x ∈ ps, x ≠ []) → readExact ps.flatten.length (ps ++ rest) = some (ps.flatten, rest) := by
  intro ps
  induction ps with
  | nil => intro rest _; simp [readExact]
  | cons c ps ih =>
    intro rest hne
    have hc : c ≠ [] := hne c (List.mem_cons_self ..)
    have hne' : ∀ x ∈ ps, x ≠ [] := fun x hx => hne x (List.mem_cons_of_mem _ hx)
    have hcl : 0 < c.length := List.length_pos_iff.mpr hc
    have hlen : (c :: ps).flatten.length = c.length + ps.flatten.length := by simp only [List.flatten_cons, List.length_append]
    obtain ⟨k, hk⟩ : ∃ k, (c :: ps).flatten.length = k + 1 := ⟨c.length + ps.flatten.length - 1, by rw [hlen]; omega⟩
    rw [hk, List.cons_append, readExact]
    rw [hlen] at hk
    by_cases hge : c.length ≥ k + 1
    · -- the rest of the pieces is empty
      have hz : ps.flatten.length = 0 := by omega
      have hps : ps = [] := by
        cases ps with
        | nil => rfl
        | cons d ds =>
          have hd : 0 < d.length := List.length_pos_iff.mpr (hne' d (List.mem_cons_self ..))
          have : (d :: ds).flatten.length = d.length + ds.flatten.length := by simp only [List.flatten_cons, List.length_append]
          omega
      subst hps
      have hcl' : c.length = k + 1 := by simp only [List.flatten_nil, List.length_nil] at hk; omega
      simp [hcl', List.take_of_length_le (Nat.le_of_eq hcl')]
    · simp only [hge, if_false]
      have hrem : k + 1 - c.length = ps.flatten.length := by omega
      rw [hrem, ih rest hne']
      simp

theorem take_drop_buf (f b : Bytes) (hf : f.length ≤ BUF) :
    (f ++ b).take BUF = f ++ b.take (BUF - f.length) ∧ (f ++ b).drop BUF = b.drop (BUF - f.length) := by
  constructor
  · rw [List.take_append]; simp [List.take_of_length_le hf]
  · rw [List.drop_append]; simp [List.drop_of_length_le hf]

/-- what a request is answered does not depend on how its bytes were cut into reads (head within the first read) -/
theorem answer_seg (app : App) (s : Seg) (hex : SegExact s) :
    answer app s.bytes = (match parse s.1 s.2.flatten with
      | .ok p => some (app.respond none p, wantsClose p)
      | .reject st => some (app.reject st, true)
      | _ => none) := by
  obtain ⟨f, ps⟩ := s
  obtain ⟨hne, hlen, hps, hshape⟩ := hex
  simp only at hne hlen hps hshape ⊢
  unfold answer Seg.bytes
  simp only
  obtain ⟨ht, hd⟩ := take_drop_buf f ps.flatten hlen
  rw [ht, hd]
  cases hp : parse f ps.flatten with
  | close => simp [hp] at hshape
  | panic st => simp [hp] at hshape
  | reject st =>
    simp only [hp] at hshape
    subst hshape
    simp only [List.flatten_nil, List.take_nil, List.drop_nil, List.append_nil]
    simp only [List.flatten_nil] at hp
    rw [hp]
  | ok p =>
    have : parse f (ps.flatten.take (BUF - f.length) ++ ps.flatten.drop (BUF - f.length)) = .ok p := by rw [List.take_append_drop]; exact hp
    rw [parse_split _ _ _ _ this]

/-- **Responses are a function of the byte stream.**  Let a connection deliver any number of requests, each with its head inside one read
(of at most the buffer) and its body cut into reads in any way — any amount of it arriving with the head, the rest in any pieces. Then the
responses are `expected` of the requests' bytes: request by request what the same bytes get as one read on a fresh connection
(`one_per_chunk`, `fresh_connection` of C05).  No segmentation appears on the right-hand side. -/
theorem segmentation_independent (app : App) : ∀ (segs : List Seg), (∀ s ∈ segs, SegExact s) → ∀ (fuel : Nat), segs.length < fuel → ∀ (res : Residue) (eof : Bool),
    (run (forget app) fuel res ⟨chunksOf segs, eof⟩).1 = expected app (segs.map Seg.bytes) := by
  intro segs
  induction segs with
  | nil =>
    intro _ fuel hf res eof
    cases fuel with
    | zero => simp at hf
    | succ n => simp [run, readSome, expected, chunksOf]
  | cons s segs ih =>
    intro hex fuel hf res eof
    cases fuel with
    | zero => simp at hf
    | succ n =>
      have hexs := hex s (List.mem_cons_self ..)
      have hex' : ∀ s' ∈ segs, SegExact s' := fun s' hs' => hex s' (List.mem_cons_of_mem _ hs')
      have hfn : segs.length < n := by simp at hf; omega
      have hans := answer_seg app s hexs
      obtain ⟨f, ps⟩ := s
      obtain ⟨hne, hlen, hps, hshape⟩ := hexs
      simp only at hne hlen hps hshape hans
      have hchunks : chunksOf ((f, ps) :: segs) = f :: (ps ++ chunksOf segs) := by simp [chunksOf]
      have hrs : readSome Gen.BUF_SIZE (f :: (ps ++ chunksOf segs)) = some (f, ps ++ chunksOf segs) := by
        have := readSome_cons f (ps ++ chunksOf segs) hne
        unfold BUF at this hlen
        simpa [hlen, List.take_of_length_le hlen] using this
      simp only [run, hchunks, hrs, List.map_cons]
      simp only [expected, hans, List.flatten_append]
      cases hp : parse f ps.flatten with
      | close => simp [hp] at hshape
      | panic st => simp [hp] at hshape
      | reject st =>
        simp only [hp] at hshape
        subst hshape
        simp only [List.flatten_nil] at hp
        have hp' := (parse_more f [] (chunksOf segs).flatten).2 st hp
        simp only [List.nil_append, List.flatten_nil] at hp' ⊢
        rw [hp']
        simp [forget]
      | ok p =>
        simp only [hp] at hshape
        have hp' := (parse_more f ps.flatten (chunksOf segs).flatten).1 p hp
        rw [hp']
        dsimp only
        rw [hshape, readExact_pieces ps (chunksOf segs) hps]
        dsimp only
        by_cases hw : wantsClose p = true
        · simp [hw, forget]
        · have hw' : wantsClose p = false := by simpa using hw
          simp only [hw', Bool.false_eq_true, if_false]
          have := ih hex' n hfn { parsed := some p, buf0 := f.headD 0 } eof
          simp only [forget] at this ⊢
          rw [this]

theorem segmentation_independent' (app : App) (segs : List Seg) (hex : ∀ s ∈ segs, SegExact s) (fuel : Nat) (hf : segs.length < fuel) (eof : Bool) :
    (run app fuel ⟨none, 0⟩ ⟨chunksOf segs, eof⟩).1 = expected app (segs.map Seg.bytes) := by
  rw [residue_irrelevant app fuel ⟨none, 0⟩ ⟨chunksOf segs, eof⟩ (Or.inl rfl)]
  exact segmentation_independent app segs hex fuel hf _ eof

end Ohkami.Session
