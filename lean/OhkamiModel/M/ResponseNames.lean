import OhkamiModel.M.ResponseProofs
/-! C03, "every live header exactly once", for the names given to the by-name API `.x(name, ..)`: field names compare in any
    letter case.  Whatever history of public operations built the response, the lines written for names outside the standard table
    carry pairwise different names, ignoring case, and none of them is a name of the table (those are written from the table, once). -/
namespace Ohkami.Response
open Ohkami

theorem ciEq_iff (a b : Bytes) : ciEq a b = true ↔ a.map lowerB = b.map lowerB := by simp [ciEq]
theorem ciEq_refl (a : Bytes) : ciEq a a = true := by simp [ciEq]
theorem ciEq_symm {a b : Bytes} (h : ciEq a b = true) : ciEq b a = true := by rw [ciEq_iff] at *; exact h.symm
theorem ciEq_trans {a b c : Bytes} (h1 : ciEq a b = true) (h2 : ciEq b c = true) : ciEq a c = true := by
  rw [ciEq_iff] at *; exact h1.trans h2
theorem ciEq_congr {k n : Bytes} (h : ciEq k n = true) (a : Bytes) : ciEq a k = ciEq a n := by
  cases h1 : ciEq a k <;> cases h2 : ciEq a n <;> try rfl
  · exact absurd (ciEq_trans h2 (ciEq_symm h)) (by simp [h1])
  · exact absurd (ciEq_trans h1 h) (by simp [h2])

theorem stdIdx_congr (c : Cfg) {k n : Bytes} (h : ciEq k n = true) : stdIdx c k = stdIdx c n := by
  unfold stdIdx
  congr 1
  funext x
  exact ciEq_congr h x

/-- the number of lines written under the name `n`, ignoring case -/
def linesFor (l : List (Bytes × Bytes)) (n : Bytes) : Nat := (l.map fun nv => if ciEq nv.1 n then 1 else 0).sum
/-- the number of lines, among those for names outside the table, whose name is a name of the table after all -/
def strays (c : Cfg) (l : List (Bytes × Bytes)) : Nat := (l.map fun nv => if (stdIdx c nv.1).isSome then 1 else 0).sum

def XInv (c : Cfg) (h : Headers) : Prop := (∀ n, linesFor h.custom n ≤ 1) ∧ strays c h.custom = 0

/-- the store operations on names outside the table are reached through `.x` only (which resolves the spelling first) -/
def ROp.viaApi : ROp → Prop
  | .h (.insertX _ _) | .h (.appendX _ _) => False
  | _ => True

theorem sum_zero_of_all {α} (g : α → Nat) (l : List α) (h : ∀ a ∈ l, g a = 0) : (l.map g).sum = 0 := by
  induction l with
  | nil => rfl
  | cons a l ih => simp [h a (by simp), ih (fun x hx => h x (by simp [hx]))]

theorem findIdx_name {l : List (Bytes × Bytes)} {n : Bytes} {i : Nat} (h : l.findIdx? (fun x => decide (x.1 = n)) = some i) :
    ∃ hi : i < l.length, l[i].1 = n := by
  obtain ⟨hi, hp, _⟩ := List.findIdx?_eq_some_iff_getElem.mp h
  exact ⟨hi, by simpa using hp⟩

/-- the spelling `held_name` returns: the one already in the list if there is one, else the name itself and then nothing in the list
    equals it ignoring case -/
theorem heldName_spec (h : Headers) (n : Bytes) :
    ciEq (heldName h n) n = true ∧
    ((∃ e ∈ h.custom, e.1 = heldName h n) ∨ (heldName h n = n ∧ ∀ a ∈ h.custom, ciEq a.1 n = false)) := by
  unfold heldName
  cases hf : h.custom.find? (fun x => ciEq x.1 n) with
  | some e =>
    have hp := List.find?_some hf
    have hm := List.mem_of_find?_eq_some hf
    exact ⟨by simpa using hp, Or.inl ⟨e, hm, by simp⟩⟩
  | none =>
    refine ⟨by simp [ciEq_refl], Or.inr ⟨by simp, fun a ha => ?_⟩⟩
    have := List.find?_eq_none.mp hf a ha
    simpa using this

theorem mem_findIdx_some {l : List (Bytes × Bytes)} {n : Bytes} (h : ∃ e ∈ l, e.1 = n) :
    ∃ i, l.findIdx? (fun x => decide (x.1 = n)) = some i := by
  obtain ⟨e, he, hn⟩ := h
  cases hf : l.findIdx? (fun x => decide (x.1 = n)) with
  | some i => exact ⟨i, rfl⟩
  | none =>
    have := List.findIdx?_eq_none_iff.mp hf e he
    simp [hn] at this

theorem XInv_set_same (c : Cfg) (l : List (Bytes × Bytes)) (i : Nat) (hi : i < l.length) (v : Bytes)
    (h : (∀ n, linesFor l n ≤ 1) ∧ strays c l = 0) :
    (∀ n, linesFor (l.set i (l[i].1, v)) n ≤ 1) ∧ strays c (l.set i (l[i].1, v)) = 0 := by
  constructor
  · intro n
    have := sum_map_set (fun nv : Bytes × Bytes => if ciEq nv.1 n then 1 else 0) l i (l[i].1, v) hi
    have := h.1 n
    unfold linesFor at *
    simp only at *
    omega
  · have := sum_map_set (fun nv : Bytes × Bytes => if (stdIdx c nv.1).isSome then 1 else 0) l i (l[i].1, v) hi
    have := h.2
    unfold strays at *
    simp only at *
    omega

theorem XInv_push (c : Cfg) (l : List (Bytes × Bytes)) (n v : Bytes) (hs : stdIdx c n = none) (hno : ∀ a ∈ l, ciEq a.1 n = false)
    (h : (∀ m, linesFor l m ≤ 1) ∧ strays c l = 0) :
    (∀ m, linesFor (l ++ [(n, v)]) m ≤ 1) ∧ strays c (l ++ [(n, v)]) = 0 := by
  constructor
  · intro m
    unfold linesFor
    simp only [List.map_append, List.sum_append, List.map_cons, List.map_nil, List.sum_cons, List.sum_nil]
    cases hnm : ciEq n m with
    | false => have := h.1 m; unfold linesFor at this; simp; omega
    | true =>
      have : (l.map fun nv : Bytes × Bytes => if ciEq nv.1 m then 1 else 0).sum = 0 := by
        apply sum_zero_of_all
        intro a ha
        have := hno a ha
        rw [ciEq_congr hnm a.1] at this
        simp [this]
      simp [this]
  · unfold strays at *
    simp only [List.map_append, List.sum_append, List.map_cons, List.map_nil, List.sum_cons, List.sum_nil, hs]
    simp [h.2]

theorem XInv_swapRemove (c : Cfg) (l : List (Bytes × Bytes)) (i : Nat) (hi : i < l.length)
    (h : (∀ n, linesFor l n ≤ 1) ∧ strays c l = 0) :
    (∀ n, linesFor (swapRemove l i) n ≤ 1) ∧ strays c (swapRemove l i) = 0 := by
  constructor
  · intro n
    have := sum_map_swapRemove (fun nv : Bytes × Bytes => if ciEq nv.1 n then 1 else 0) l i hi
    have := h.1 n
    unfold linesFor at *
    omega
  · have := sum_map_swapRemove (fun nv : Bytes × Bytes => if (stdIdx c nv.1).isSome then 1 else 0) l i hi
    have := h.2
    unfold strays at *
    omega

/-- one `.x` operation keeps the names apart -/
theorem XInv_resolveX (c : Cfg) (h : Headers) (op : XOp) (hx : XInv c h) : XInv c (h.apply c.nameLen (resolveX c h op)) := by
  obtain ⟨hspec1, hspec2⟩ := heldName_spec h op.name
  have hstd : stdIdx c op.name = none → stdIdx c (heldName h op.name) = none := fun e => by rw [stdIdx_congr c hspec1]; exact e
  cases op with
  | set n v =>
    simp only [XOp.name] at hspec1 hspec2 hstd
    simp only [resolveX]
    cases hs : stdIdx c n with
    | some k => simp only [Headers.apply]; split <;> exact hx
    | none =>
      simp only [Headers.apply]
      cases hf : h.custom.findIdx? (fun x => decide (x.1 = heldName h n)) with
      | some i =>
        obtain ⟨hi, hn⟩ := findIdx_name hf
        have := XInv_set_same c h.custom i hi v hx
        rw [hn] at this
        exact this
      | none =>
        rcases hspec2 with hex | ⟨he, hno⟩
        · obtain ⟨j, hj⟩ := mem_findIdx_some hex; rw [hf] at hj; cases hj
        · rw [he]; exact XInv_push c h.custom n v hs hno hx
  | remove n =>
    simp only [resolveX]
    cases hs : stdIdx c n with
    | some k => simp only [Headers.apply]; split <;> exact hx
    | none =>
      simp only [Headers.apply]
      cases hf : h.custom.findIdx? (fun x => decide (x.1 = heldName h n)) with
      | some i =>
        obtain ⟨hi, _⟩ := findIdx_name hf
        exact XInv_swapRemove c h.custom i hi hx
      | none => exact hx
  | append n v =>
    simp only [XOp.name] at hspec1 hspec2 hstd
    simp only [resolveX]
    cases hs : stdIdx c n with
    | some k => simp only [Headers.apply]; split <;> exact hx
    | none =>
      simp only [Headers.apply]
      cases hf : h.custom.findIdx? (fun x => decide (x.1 = heldName h n)) with
      | some i =>
        obtain ⟨hi, hn⟩ := findIdx_name hf
        have := XInv_set_same c h.custom i hi (((h.custom[i]?).map (·.2)).getD [] ++ joinSep ++ v) hx
        rw [hn] at this
        exact this
      | none =>
        rcases hspec2 with hex | ⟨he, hno⟩
        · obtain ⟨j, hj⟩ := mem_findIdx_some hex; rw [hf] at hj; cases hj
        · rw [he]; exact XInv_push c h.custom n v hs hno hx

/-- the operations on the table and on cookies do not touch the names outside the table -/
theorem custom_std (nameLen : Nat → Nat) (h : Headers) (op : HOp)
    (hop : match op with | .insertX _ _ | .appendX _ _ | .removeX _ => False | _ => True) :
    (h.apply nameLen op).custom = h.custom := by
  cases op <;> simp only [Headers.apply] at * <;> first | (split <;> rfl) | rfl | exact absurd hop id

theorem XInv_hop_std (c : Cfg) (r : Resp) (op : HOp)
    (hop : match op with | .insertX _ _ | .appendX _ _ | .removeX _ => False | _ => True) (hx : XInv c r.headers) :
    XInv c (Response.hop c r op).headers := by
  unfold XInv Response.hop
  simp only [custom_std c.nameLen r.headers op hop]
  exact hx

theorem XInv_applyOp (c : Cfg) (r : Resp) (op : ROp) (hv : op.viaApi) (hx : XInv c r.headers) : XInv c (applyOp c r op).headers := by
  cases op with
  | h hop' =>
    cases hop' with
    | insertX _ _ => exact absurd hv id
    | appendX _ _ => exact absurd hv id
    | removeX n =>
      simp only [applyOp, Response.hop, Headers.apply]
      cases hf : r.headers.custom.findIdx? (fun x => decide (x.1 = n)) with
      | some i => obtain ⟨hi, _⟩ := findIdx_name hf; exact XInv_swapRemove c r.headers.custom i hi hx
      | none => exact hx
    | insert k v => exact XInv_hop_std c r _ trivial hx
    | remove k => exact XInv_hop_std c r _ trivial hx
    | append k v => exact XInv_hop_std c r _ trivial hx
    | cookie l => exact XInv_hop_std c r _ trivial hx
  | x xop => exact XInv_resolveX c r.headers xop hx
  | payload ct b =>
    simp only [applyOp, setPayload]
    exact XInv_hop_std c _ _ trivial (XInv_hop_std c r _ trivial hx)
  | drop =>
    simp only [applyOp, dropContent]
    exact XInv_hop_std c _ _ trivial (XInv_hop_std c { r with body := none } _ trivial hx)

theorem XInv_new (c : Cfg) (status : Nat) (date : Bytes) : XInv c (new c status date).headers := by
  unfold new
  apply XInv_hop_std c _ _ trivial
  apply XInv_hop_std c _ _ trivial
  simp [XInv, Headers.empty, linesFor, strays]

theorem XInv_complete (c : Cfg) (r : Resp) (hx : XInv c r.headers) : XInv c (complete c r).headers := by
  unfold complete
  split
  · show XInv c (Resp.headers { (if _ then _ else _ : Resp) with body := none })
    simp only
    split
    · exact XInv_hop_std c r _ trivial hx
    · exact hx
  · split
    · split
      · exact XInv_hop_std c r _ trivial hx
      · exact hx
    · exact hx

/-- **No header name gets two lines, in whatever letter case it was given.**  For every history of public operations. -/
theorem names_apart (c : Cfg) (status : Nat) (date : Bytes) (ops : List ROp) (hv : ∀ op ∈ ops, op.viaApi) :
    XInv c (build c status date ops).headers := by
  unfold build
  apply XInv_complete
  suffices ∀ r, XInv c r.headers → XInv c (ops.foldl (applyOp c) r).headers from this _ (XInv_new c status date)
  induction ops with
  | nil => intro r hx; exact hx
  | cons op ops ih =>
    intro r hx
    simp only [List.foldl_cons]
    exact ih (fun o ho => hv o (by simp [ho])) _ (XInv_applyOp c r op (hv op (by simp)) hx)

end Ohkami.Response
