import OhkamiModel.P.SerdePrims
import OhkamiModel.M.SetCookie
/-! C11 (and C08) model: the `Cookie` header decoders — `serde_cookie::from_str` into a derived struct
(ohkami_lib/src/serde_cookie/de.rs, as repaired) and `util::iter_cookies` — and `SetCookie::from_raw`
(ohkami/src/header/setcookie.rs).  Field types: String, &str, char, integers, bool, Option of those; unknown cookies are ignored. -/
namespace Ohkami.Cookie
open Ohkami Ohkami.Serde Ohkami.Serde.Concrete

def SEMI : UInt8 := 59
def EQ : UInt8 := 61
def SP : UInt8 := 32
def DQ : UInt8 := 34

/-- `valid::name`: bytes a cookie name must not contain -/
def badNameByte (b : UInt8) : Bool :=
  b ≥ 128 || b ≤ 31 || b == 127 || [32, 40, 41, 60, 62, 64, 44, 59, 58, 92, 34, 47, 91, 93, 63, 61, 123, 125].contains b
/-- `valid::value`: bytes a (de-quoted) cookie value must not contain -/
def badValueByte (b : UInt8) : Bool :=
  b ≥ 128 || b ≤ 31 || b == 127 || [32, 44, 59, 92, 34].contains b

def stripQuotes (bs : Bytes) : Bytes :=
  if bs.length ≥ 2 && bs.head? == some DQ && bs.getLast? == some DQ then (bs.drop 1).dropLast else bs

/-- `valid::value`: (decoded value, whether it is borrowed from the input i.e. needed no decoding) -/
def validValue (raw : Bytes) : Option (Bytes × Bool) :=
  let bs := stripQuotes raw
  if bs.any badValueByte then none
  else
    let dec := Percent.decode bs
    if Http.validUtf8 dec then some (dec, dec == bs) else none

def position (p : UInt8 → Bool) : Bytes → Option Nat
  | [] => none
  | b :: bs => if p b then some 0 else (position p bs).map (· + 1)

/-- `next_section` on the name side: (name, rest starting at `=`) -/
def nextName (input : Bytes) : Option (Bytes × Bytes) :=
  match position (fun b => b == EQ || b == SEMI) input with
  | none => none
  | some 0 => none
  | some n => if (input.take n).any badNameByte then none else if input[n]? == some EQ then some (input.take n, input.drop n) else none

/-- `next_section` on the value side: (validated value, rest starting at `;` or empty) — `none` in the first component = invalid value -/
def nextValue (input : Bytes) : Option (Bytes × Bool) × Bytes :=
  match position (· == SEMI) input with
  | none => (validValue input, [])
  | some n => (validValue (input.take n), input.drop n)

inductive Out (α : Type) where
  | ok (a : α) | err
deriving Repr

def isNone (input : Bytes) : Bool := input.isEmpty || input.head? == some SEMI

/-- one field value, by its type; returns the value and the remaining input -/
def fieldValue : Nat → Ty → Bytes → Out (Value × Bytes)
  | 0, _, _ => .err
  | fuel + 1, ty, input =>
    match ty with
    | .string => (match nextValue input with | (some (v, _), r) => .ok (.str v, r) | _ => .err)
    | .str => (match nextValue input with | (some (v, true), r) => .ok (.str v, r) | _ => .err)
    | .bool => (match nextValue input with
        | (some (v, _), r) => if v = Serde.TRUE then .ok (.bool true, r) else if v = Serde.FALSE then .ok (.bool false, r) else .err
        | _ => .err)
    | .uint bits => (match nextValue input with
        | (some (v, _), r) => (match parseInt false bits v with | some z => .ok (.int z, r) | none => .err)
        | _ => .err)
    | .sint bits => (match nextValue input with
        | (some (v, _), r) => (match parseInt true bits v with | some z => .ok (.int z, r) | none => .err)
        | _ => .err)
    | .char => (match nextValue input with            -- `deserialize_char`: the decoded value is exactly one character
        | (some (v, _), r) => (match utf8Chars v with | some [c] => .ok (.char c, r) | _ => .err)
        | _ => .err)
    | .option t => if isNone input then .ok (.none, input) else
        (match fieldValue fuel t input with | .ok (v, r) => .ok (.some v, r) | .err => .err)
    | _ => .err

/-- the map loop of the derived struct visitor over `name=value; name=value` -/
def pairs (fields : List (Bytes × Ty × Bool)) : Nat → Bool → Bytes → List (Bytes × Value) → Out (List (Bytes × Value))
  | 0, _, _, _ => .err
  | fuel + 1, first, input, seen =>
    if input.isEmpty then .ok seen else
    let afterSep : Option Bytes :=
      if first then some input else
      match input with
      | a :: b :: rest => if a == SEMI && b == SP then some rest else none
      | _ => none
    match afterSep with
    | none => .err
    | some input =>
      match nextName input with
      | none => .err
      | some (name, rest) =>
        match rest with
        | e :: vin =>
          if e != EQ then .err else
          match lookupField fields name with
          | none => pairs fields fuel false (nextValue vin).2 seen          -- unknown cookie: value skipped, errors ignored
          | some ty =>
            if (seen.find? (·.1 = name)).isSome then .err else              -- duplicate field
            match fieldValue 8 ty vin with
            | .ok (v, r) => pairs fields fuel false r (seen ++ [(name, v)])
            | .err => .err
        | [] => .err

/-- `serde_cookie::from_str::<Struct>` -/
def fromStr (fields : List (Bytes × Ty × Bool)) (input : Bytes) : Out (List (Bytes × Value)) :=
  match pairs fields (input.length + 2) true input [] with
  | .err => .err
  | .ok seen => match fillMissing fields seen with | some fs => .ok fs | none => .err

/-! ### `iter_cookies` -/
def splitOnSeq (sep : Bytes) : Nat → Bytes → List Bytes
  | 0, bs => [bs]
  | fuel + 1, bs =>
    let rec find : Nat → Bytes → Option Nat
      | _, [] => none
      | i, b :: t => if sep.isPrefixOf (b :: t) then some i else find (i + 1) t
    match find 0 bs with
    | none => [bs]
    | some i => bs.take i :: splitOnSeq sep fuel (bs.drop (i + sep.length))

def splitOnByte (c : UInt8) : Bytes → List Bytes
  | [] => [[]]
  | b :: bs =>
    match splitOnByte c bs with
    | [] => [[]]
    | l :: ls => if b = c then [] :: l :: ls else (b :: l) :: ls

/-- `raw.split("; ")` then exactly one `=` per part -/
def iterCookies (raw : Bytes) : List (Bytes × Bytes) :=
  (splitOnSeq [SEMI, SP] (raw.length + 1) raw).filterMap fun kv =>
    match splitOnByte EQ kv with
    | [k, v] => some (k, v)
    | _ => none

/-! ### `SetCookie::from_raw` -/
def readUntilSeq (sep : Bytes) : Bytes → Bytes × Bytes
  | [] => ([], [])
  | b :: t => if sep.isPrefixOf (b :: t) then ([], b :: t) else let (a, r) := readUntilSeq sep t; (b :: a, r)

def stripPrefix (pre bs : Bytes) : Option Bytes := if pre.isPrefixOf bs then some (bs.drop pre.length) else none

def parseU64 (bs : Bytes) : Option Nat :=
  -- `str::parse::<u64>`: optional `+`, digits, in range
  match parseInt false 64 bs with | some z => some z.toNat | none => none

def directive (c : SetCookie.Cookie) (d : Bytes) : Option SetCookie.Cookie :=
  let a := SetCookie.ascii
  if let some r := stripPrefix (a "Expires") d then (stripPrefix [EQ] r).map fun v => { c with expires := some v }
  else if let some r := stripPrefix (a "Max-Age") d then (stripPrefix [EQ] r).bind fun v => (if Http.validUtf8 v then parseU64 v else none).map fun n => { c with maxAge := some n }
  else if let some r := stripPrefix (a "Domain") d then (stripPrefix [EQ] r).map fun v => { c with domain := some v }
  else if let some r := stripPrefix (a "Path") d then (stripPrefix [EQ] r).map fun v => { c with path := some v }
  else if let some r := stripPrefix (a "SameSite") d then (stripPrefix [EQ] r).map fun v =>
    { c with sameSite := if v = a "Strict" then some .strict else if v = a "Lax" then some .lax else if v = a "None" then some .none else none }
  else if (stripPrefix (a "Secure") d).isSome then some { c with secure := true }
  else if (stripPrefix (a "HttpOnly") d).isSome then some { c with httpOnly := true }
  else none

def directives : Nat → SetCookie.Cookie → Bytes → Option SetCookie.Cookie
  | 0, _, _ => none
  | fuel + 1, c, rest =>
    match stripPrefix [SEMI, SP] rest with
    | none => some c
    | some r =>
      let (d, r') := readUntilSeq [SEMI, SP] r
      (directive c d).bind fun c' => directives fuel c' r'

/-- `SetCookie::from_raw` (Expires / Domain / Path values must be UTF-8: they are, the input is a `&str`) -/
def fromRaw (raw : Bytes) : Option SetCookie.Cookie :=
  let (name, r) := readUntilSeq [EQ] raw
  match stripPrefix [EQ] r with
  | none => none
  | some r =>
    let (v, r') := readUntilSeq [SEMI, SP] r
    let dec := Percent.decode (stripQuotes v)
    if !Http.validUtf8 dec then none else
    directives (raw.length + 1) { name := name, value := dec } r'

end Ohkami.Cookie
