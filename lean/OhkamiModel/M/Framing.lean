/-! C03, framing for every content kind: the part of `Response` that decides how the end of the message is announced — the content
    (none / a payload of known length / an event stream), `Content-Length`, `Transfer-Encoding: chunked` — under the body operations of
    the public API (`set_text` / `set_html` / `set_json` / `set_payload`, `drop_content`, `set_stream`), `Response::complete`, and the HEAD
    path of `Router::handle` (content taken away before `complete`).  Other headers do not touch these three and are left out. -/
namespace Ohkami.Framing

inductive Content where | none | payload (n : Nat) | stream
deriving DecidableEq, Repr

structure St where
  status : Nat
  content : Content
  cl : Option Nat        -- the declared Content-Length, if the header is there
  te : Bool              -- Transfer-Encoding: chunked is there
deriving DecidableEq, Repr

inductive Op where | payload (n : Nat) | drop | stream
deriving DecidableEq, Repr

/-- `Response::new`: `Content-Length: 0`, no content -/
def new (status : Nat) : St := ⟨status, .none, some 0, false⟩

/-- `unannounce_stream`: the chunked coding goes with the stream that announced it -/
def unannounce (s : St) : St := if s.content = .stream then { s with te := false } else s

def apply (s : St) : Op → St
  | .payload n => { unannounce s with cl := some n, content := .payload n }
  | .drop => { unannounce s with cl := none, content := .none }
  | .stream => { s with cl := none, te := true, content := .stream }

def noLengthStatus (status : Nat) : Bool := (100 ≤ status && status ≤ 199) || status = 304

/-- `Response::complete` -/
def complete (s : St) : St :=
  if s.status = 204 then { s with cl := none, te := false, content := .none }
  else match s.content with
    | .stream => { s with cl := none }
    | .none => if s.cl.isNone && !s.te && !noLengthStatus s.status then { s with cl := some 0 } else s
    | .payload _ => s

/-- a handler's response built by `ops`, answered to GET (`head = false`) or to HEAD (`Router::handle` takes the content away, then completes) -/
def build (status : Nat) (ops : List Op) (head : Bool) : St :=
  let s := ops.foldl apply (new status)
  complete (if head then { s with content := .none } else s)

/-- what holds after every history: the chunked coding is announced exactly while the content is a stream, a payload is declared with its length,
    a stream with none -/
def Inv (s : St) : Prop :=
  (s.te = true ↔ s.content = .stream) ∧ (∀ n, s.content = .payload n → s.cl = some n) ∧ (s.content = .stream → s.cl = none)

theorem inv_new (status : Nat) : Inv (new status) := by simp [Inv, new]

theorem inv_apply (s : St) (op : Op) (h : Inv s) : Inv (apply s op) := by
  obtain ⟨st, c, cl, te⟩ := s
  obtain ⟨h1, h2, h3⟩ := h
  cases op <;> cases c <;> simp_all [Inv, apply, unannounce]

theorem inv_fold (ops : List Op) : ∀ s, Inv s → Inv (ops.foldl apply s) := by
  induction ops with
  | nil => intro s h; exact h
  | cons op ops ih => intro s h; exact ih _ (inv_apply s op h)

theorem status_fold (ops : List Op) : ∀ s, (ops.foldl apply s).status = s.status := by
  induction ops with
  | nil => intro s; rfl
  | cons op ops ih =>
    intro s
    rw [List.foldl_cons, ih]
    cases op <;> simp [apply, unannounce] <;> split <;> rfl

end Ohkami.Framing

namespace Ohkami.Framing

/-- **Never both**: whatever the history, the status and the method, a completed response does not carry `Content-Length` beside `Transfer-Encoding` -/
theorem never_both (status : Nat) (ops : List Op) (head : Bool) : ¬ ((build status ops head).cl.isSome = true ∧ (build status ops head).te = true) := by
  have hi := inv_fold ops (new status) (inv_new status)
  generalize hs : ops.foldl apply (new status) = s at hi
  obtain ⟨st, c, cl, te⟩ := s
  obtain ⟨h1, h2, h3⟩ := hi
  simp only [build, hs]
  cases head <;> cases c <;> simp_all [complete] <;> (try split) <;> (try simp_all) <;> (try split) <;> (try simp_all)

/-- **204**: no content, no declared length, no coding -/
theorem no_content_204 (ops : List Op) (head : Bool) :
    (build 204 ops head).content = .none ∧ (build 204 ops head).cl = none ∧ (build 204 ops head).te = false := by
  have hs := status_fold ops (new 204)
  generalize hg : ops.foldl apply (new 204) = s at hs
  obtain ⟨st, c, cl, te⟩ := s
  simp only [new] at hs
  subst hs
  cases head <;> simp [build, hg, complete]

/-- **A stream goes out chunked and without a declared length; a payload under its own length and not chunked** (GET, status other than 204) -/
theorem content_announced (status : Nat) (ops : List Op) (h204 : status ≠ 204) :
    ((build status ops false).content = .stream → (build status ops false).te = true ∧ (build status ops false).cl = none) ∧
    (∀ n, (build status ops false).content = .payload n → (build status ops false).cl = some n ∧ (build status ops false).te = false) := by
  have hi := inv_fold ops (new status) (inv_new status)
  have hs := status_fold ops (new status)
  generalize hg : ops.foldl apply (new status) = s at hi hs
  obtain ⟨st, c, cl, te⟩ := s
  obtain ⟨h1, h2, h3⟩ := hi
  simp only [new] at hs
  subst hs
  cases c <;> simp_all [build, complete] <;> (try split) <;> simp_all

/-- **The end of the message can be determined** (GET): a declared length or the chunked coding — or a status that never has content (1xx, 204, 304) -/
theorem end_determinable (status : Nat) (ops : List Op) :
    (build status ops false).cl.isSome = true ∨ (build status ops false).te = true ∨ status = 204 ∨ noLengthStatus status = true := by
  have hi := inv_fold ops (new status) (inv_new status)
  have hs := status_fold ops (new status)
  generalize hg : ops.foldl apply (new status) = s at hi hs
  obtain ⟨st, c, cl, te⟩ := s
  obtain ⟨h1, h2, h3⟩ := hi
  simp only [new] at hs
  subst hs
  by_cases h204 : st = 204
  · simp [h204]
  · cases c
    · simp only [build, hg, Bool.false_eq_true, if_false, complete, h204]
      by_cases hc : (cl.isNone && !te && !noLengthStatus st) = true
      · simp [hc]
      · simp only [hc, Bool.false_eq_true, if_false]
        cases cl <;> cases te <;> simp_all
    · have := h2 _ rfl
      simp [build, hg, complete, h204, this]
    · have := (h1.mpr rfl)
      simp [build, hg, complete, h204, this]

end Ohkami.Framing
