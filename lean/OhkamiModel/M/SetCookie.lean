import OhkamiModel.P.Percent
import OhkamiModel.M.Response
/-! `SetCookieBuilder::build` (ohkami/src/header/setcookie.rs:148-186): the Set-Cookie line for a cookie and its directives. -/
namespace Ohkami.SetCookie
open Ohkami

inductive SameSite where | strict | lax | none
deriving Repr, DecidableEq

structure Cookie where
  name : Bytes
  value : Bytes
  expires : Option Bytes := .none
  maxAge : Option Nat := .none
  domain : Option Bytes := .none
  path : Option Bytes := .none
  secure : Bool := false
  httpOnly : Bool := false
  sameSite : Option SameSite := .none
deriving Repr

def ascii (s : String) : Bytes := s.toList.map (·.toNat.toUInt8)

def SameSite.bytes : SameSite → Bytes
  | .strict => [83, 116, 114, 105, 99, 116]
  | .lax => [76, 97, 120]
  | .none => [78, 111, 110, 101]

def sExpires : Bytes := [59, 32, 69, 120, 112, 105, 114, 101, 115, 61]        -- "; Expires="
def sMaxAge : Bytes := [59, 32, 77, 97, 120, 45, 65, 103, 101, 61]            -- "; Max-Age="
def sDomain : Bytes := [59, 32, 68, 111, 109, 97, 105, 110, 61]               -- "; Domain="
def sPath : Bytes := [59, 32, 80, 97, 116, 104, 61]                           -- "; Path="
def sSecure : Bytes := [59, 32, 83, 101, 99, 117, 114, 101]                   -- "; Secure"
def sHttpOnly : Bytes := [59, 32, 72, 116, 116, 112, 79, 110, 108, 121]       -- "; HttpOnly"
def sSameSite : Bytes := [59, 32, 83, 97, 109, 101, 83, 105, 116, 101, 61]    -- "; SameSite="

def opt (pre : Bytes) : Option Bytes → Bytes
  | some v => pre ++ v
  | none => []

def build (c : Cookie) : Bytes :=
  c.name ++ [61] ++ Percent.encode c.value
  ++ opt sExpires c.expires
  ++ opt sMaxAge (c.maxAge.map Response.dec)
  ++ opt sDomain c.domain
  ++ opt sPath c.path
  ++ (if c.secure then sSecure else [])
  ++ (if c.httpOnly then sHttpOnly else [])
  ++ opt sSameSite (c.sameSite.map SameSite.bytes)

example : build { name := ascii "id", value := ascii "4 2", path := some (ascii "/"), sameSite := some .strict, maxAge := some 120 }
    = ascii "id=4%202; Max-Age=120; Path=/; SameSite=Strict" := by decide

end Ohkami.SetCookie
