/-! C18, second half: `howl` awaits the wait group after the accept loop has ended.  `WaitGroup::poll` loads the counter of live
    sessions; zero: `Ready`; otherwise it wakes its own task (`wake_by_ref`) and returns `Pending` — the task is never parked, so
    no session's end can be missed.  Sessions end (`fetch_sub`) at any moment, also between the load and the wake.
    Transition system over (live sessions, the awaiting task's program counter, "a wake is pending"). -/
namespace Ohkami.WG

inductive Pc where | idle | loaded | ready
deriving DecidableEq, Repr

structure St where
  count : Nat          -- sessions in flight
  pc : Pc              -- the task awaiting the group: between polls / inside `poll` after loading a non-zero counter / returned
  wake : Bool          -- the task has been woken since its last poll began: the executor will poll it again
deriving DecidableEq, Repr

inductive Act where | done | load | wakeSelf
deriving DecidableEq, Repr

/-- `.await` schedules the first poll -/
def init (n : Nat) : St := ⟨n, .idle, true⟩

def step (s : St) : Act → Option St
  | .done => if 0 < s.count then some { s with count := s.count - 1 } else none               -- `Drop for WaitGroup`: fetch_sub, nothing else
  | .load => if s.pc = .idle then                                                            -- (a spurious poll is allowed: no `wake` needed)
      some (if s.count = 0 then { s with pc := .ready, wake := false } else { s with pc := .loaded, wake := false }) else none
  | .wakeSelf => if s.pc = .loaded then some { s with pc := .idle, wake := true } else none  -- `wake_by_ref`, then `Pending`

inductive Reachable (n : Nat) : St → Prop
  | init : Reachable n (init n)
  | step (s s' : St) (a : Act) : Reachable n s → step s a = some s' → Reachable n s'

/-- the inductive invariant: a task between polls always has a wake pending, and it has returned only with no session in flight -/
def Inv (s : St) : Prop := (s.pc = .idle → s.wake = true) ∧ (s.pc = .ready → s.count = 0)

theorem inv_init (n : Nat) : Inv (init n) := by simp [Inv, init]

theorem inv_step (s s' : St) (a : Act) (h : Inv s) (hs : step s a = some s') : Inv s' := by
  obtain ⟨c, pc, w⟩ := s
  cases a <;> simp only [step] at hs
  · split at hs
    · cases hs
      refine ⟨h.1, fun hr => ?_⟩
      have := h.2 hr
      show c - 1 = 0
      have h0 : c = 0 := this
      omega
    · cases hs
  · split at hs
    · split at hs <;> cases hs
      · rename_i hc; simp_all [Inv]
      · simp [Inv]
    · cases hs
  · split at hs
    · cases hs; simp [Inv]
    · cases hs

theorem inv_reachable (n : Nat) (s : St) (h : Reachable n s) : Inv s := by
  induction h with
  | init => exact inv_init n
  | step s s' a _ hs ih => exact inv_step s s' a ih hs

/-- what the awaiting task does when the executor lets it run: one poll from the top, or the rest of the poll it is in -/
def pollerStep (s : St) : St :=
  match s.pc with
  | .idle => (step s .load).getD s
  | .loaded => (step s .wakeSelf).getD s
  | .ready => s

/-- once the last session has ended, the task returns within three of its own steps, wherever it was -/
theorem progress (s : St) (hc : s.count = 0) : (pollerStep (pollerStep (pollerStep s))).pc = .ready := by
  obtain ⟨c, pc, w⟩ := s
  simp only at hc
  subst hc
  cases pc <;> simp [pollerStep, step]

/-! ### executable form for the correspondence run -/
inductive Op where | add | done | poll (fireAt : Nat)
deriving Repr

/-- one `poll` of the harness: the whole of `WaitGroup::poll`, with the oldest live session ending at the `fireAt`-th touch of the
    waker during the poll (`0` = never); the poll of the code touches the waker once (`wake_by_ref`), after the load -/
def runPoll (s : St) (fireAt : Nat) : St × Bool × Bool × Bool :=
  let s0 : St := { s with pc := .idle, wake := false }
  match step s0 .load with
  | none => (s, false, false, false)
  | some s1 =>
    if s1.pc = .ready then ({ s1 with pc := .idle }, true, false, false)
    else
      let fired := fireAt = 1 ∧ 0 < s1.count
      let s2 := if fired then (step s1 .done).getD s1 else s1
      let s3 := (step s2 .wakeSelf).getD s2
      (s3, false, s3.wake, fired)

def run : St → List Op → List (Bool × Bool × Bool) → List (Bool × Bool × Bool) × Bool
  | s, [], acc => (acc.reverse, s.wake)
  | s, .add :: ops, acc => run { s with count := s.count + 1 } ops acc
  | s, .done :: ops, acc => run ((step s .done).getD s) ops acc
  | s, .poll n :: ops, acc =>
    let (s', r, w, f) := runPoll s n
    run s' ops ((r, w, f) :: acc)

end Ohkami.WG
