import OhkamiModel.M.Session
import OhkamiModel.P.Router
import OhkamiModel.M.Response
import OhkamiModel.GenResHeaders
import OhkamiModel.GenStatus
/-! the fixed echo application of the C05 / C06 executor (harness/src/c05.rs), as a function of the parsed request:
routes `/`, `/:a`, `/:a/:b` for GET/PUT/POST/PATCH/DELETE (HEAD through GET), a fang that copies `X-Ctx` into the
per-request context, a handler that prints everything it can observe. -/
namespace Ohkami.EchoApp
open Ohkami Ohkami.Http Ohkami.Response

def ascii (s : String) : Bytes := s.toList.map (·.toNat.toUInt8)
def hexDigit (n : Nat) : UInt8 := if n < 10 then (48 + n).toUInt8 else (87 + n).toUInt8
def hexOf (bs : Bytes) : Bytes := bs.flatMap fun b => [hexDigit (b.toNat / 16), hexDigit (b.toNat % 16)]
def joinWith (sep : UInt8) : List Bytes → Bytes
  | [] => []
  | [x] => x
  | x :: xs => x ++ [sep] ++ joinWith sep xs

def customNames : List Bytes := [ascii "X-A", ascii "X-B", ascii "X-Ctx", ascii "x-lower"]

/-- the echo body; `ctx` is what the handler finds in the request context -/
def echoBody (p : Parsed) (params : List Bytes) (ctx : Option Bytes) : Bytes :=
  let q := (queryPairs (p.query.getD [])).map fun kv => hexOf kv.1 ++ [61] ++ hexOf kv.2
  let h := Gen.reqHeaderNames.zipIdx.filterMap fun (nm, k) => (getStd p k).map fun v => ascii nm.1 ++ [61] ++ hexOf v
  let x := customNames.filterMap fun n => (getHeader p n).map fun v => hexOf n ++ [61] ++ hexOf v
  ascii "M=" ++ ascii p.method ++ ascii ";P=" ++ hexOf (pathStr p) ++ ascii ";Q=" ++ joinWith 44 q ++ ascii ";H=" ++ joinWith 44 h
    ++ ascii ";X=" ++ joinWith 44 x ++ ascii ";B=" ++ (match p.payload with | some b => hexOf b | none => [45])
    ++ ascii ";A=" ++ joinWith 44 (params.map hexOf) ++ ascii ";C=" ++ (match ctx with | some c => hexOf c | none => [45])
    ++ ascii ";I=" ++ ((getHeader p (ascii "X-Set-Ip")).getD (ascii "peer"))          -- `req.ip`: the address of the connection — or what the fang wrote there from THIS request's `X-Set-Ip` —, whatever earlier requests on it carried

def keyOf (variant : String) : Nat := ((Gen.resHeaderNames.map (·.1)).idxOf? variant).getD 0
def statusLine (code : Nat) : Bytes :=
  match Gen.statusTable.find? (·.1 = code) with
  | some (_, _, msg) => (Gen.statusLinePrefix ++ msg ++ "\r\n").toUTF8.toList
  | none => []
def cfg : Cfg := ⟨Gen.resHeaderNames.map fun kv => kv.2.toUTF8.toList, keyOf "ContentLength", keyOf "ContentType", keyOf "Date", statusLine⟩

def date : Bytes := ascii "Sun, 06 Nov 1994 08:49:37 GMT"      -- the pinned clock

def plain (status : Nat) : Bytes := render cfg (build cfg status date [])

/-- the Scrub fang writes `Connection: v` on the response (hit or 404) of a request that carries `X-Res-Conn: v` -/
def resConn (p : Parsed) : List ROp :=
  match getHeader p (ascii "X-Res-Conn") with
  | some v => [.h (.insert (keyOf "Connection") v)]
  | none => []

/-- `router.handle` + `send` for the echo application.  The residue of an earlier request is an argument so that the
theorems can say it is never looked at with anything but `none`; the application itself has no way to reach it. -/
def respond (_residue : Option Parsed) (p : Parsed) : Bytes :=
  let segs := Ohkami.segments p.path      -- `p.path` is already normalised (one trailing slash stripped)
  let routed := segs.length ≤ 2 && segs.all (· ≠ [])
  let known := ["GET", "PUT", "POST", "PATCH", "DELETE", "HEAD"].contains p.method
  if !(routed && known) then render cfg (build cfg 404 date (resConn p)) else
  let params := segs.map fun s => utf8Lossy (Percent.decode s)
  let ctx := getHeader p (ascii "X-Ctx")
  let body := echoBody p params ctx
  let r := build cfg 200 date ([.payload (ascii "text/plain; charset=UTF-8") body] ++ resConn p)
  if p.method == "HEAD" then render cfg { r with body := none } else render cfg r

def app : Session.App := ⟨respond, plain⟩

end Ohkami.EchoApp
