import OhkamiModel.P.RespInv
/-! C03 model of `Response` (ohkami/src/response/mod.rs): construction, the body setters, `drop_content`,
`complete`, and `send` for `Content::None | Payload` as the byte string written and the capacity reserved.
Header names, the indices of the three headers the body setters touch, and the status lines are parameters
(`Cfg`); the driver instantiates them from the tables regenerated from the source (GenResHeaders, GenStatus). -/
namespace Ohkami.Response
open Ohkami

structure Cfg where
  names : List Bytes          -- standard header names, by enum index
  kCL : Nat                   -- Content-Length
  kCT : Nat                   -- Content-Type
  kDate : Nat
  line : Nat → Bytes          -- status line of a status code

def Cfg.n (c : Cfg) : Nat := c.names.length
def Cfg.nameLen (c : Cfg) (k : Nat) : Nat := (c.names.getD k []).length

structure Cfg.OK (c : Cfg) : Prop where
  cl : c.kCL < c.n
  ct : c.kCT < c.n
  date : c.kDate < c.n
  cl_ne_ct : c.kCL ≠ c.kCT
  cl_ne_date : c.kCL ≠ c.kDate

structure Resp where
  status : Nat
  headers : Headers
  body : Option Bytes         -- Content::None | Content::Payload
deriving Repr

/-! ### the by-name API `.x(name, ..)`: field names compare in any letter case
A name of the standard table, however it is spelt, goes to the table (`Header::from_bytes`, as `Headers::from_iter` always did); any
other name is looked up among the names already held, ignoring case (`held_name`), and the operation is carried out under that spelling. -/
def lowerB (b : UInt8) : UInt8 := if 65 ≤ b && b ≤ 90 then b + 32 else b
def ciEq (a b : Bytes) : Bool := a.map lowerB == b.map lowerB

inductive XOp where
  | set (name v : Bytes)
  | remove (name : Bytes)
  | append (name v : Bytes)
deriving Repr

def XOp.name : XOp → Bytes
  | .set n _ | .remove n | .append n _ => n

def stdIdx (c : Cfg) (n : Bytes) : Option Nat := c.names.findIdx? (ciEq · n)

def heldName (h : Headers) (n : Bytes) : Bytes := ((h.custom.find? (ciEq ·.1 n)).map (·.1)).getD n

def resolveX (c : Cfg) (h : Headers) : XOp → HOp
  | .set n v => match stdIdx c n with | some k => .insert k v | none => .insertX (heldName h n) v
  | .remove n => match stdIdx c n with | some k => .remove k | none => .removeX (heldName h n)
  | .append n v => match stdIdx c n with | some k => .append k v | none => .appendX (heldName h n) v

/-- the public operations on a `Response` -/
inductive ROp where
  | h (op : HOp)                              -- headers.set().X(..) / .SetCookie(..) (line already built)
  | x (op : XOp)                              -- headers.set().x(name, ..)
  | payload (ctype : Bytes) (body : Bytes)    -- set_text / set_html / set_json / set_payload
  | drop                                      -- drop_content
deriving Repr

def hop (c : Cfg) (r : Resp) (op : HOp) : Resp := { r with headers := r.headers.apply c.nameLen op }

/-- canonical decimal, as `ohkami_lib::num::itoa` prints it (C20 proves `itoa` equal to this) -/
def decDigits : Nat → Nat → List UInt8
  | 0, _ => []
  | fuel + 1, n => if n < 10 then [(48 + n).toUInt8] else decDigits fuel (n / 10) ++ [(48 + n % 10).toUInt8]
def dec (n : Nat) : Bytes := decDigits (n + 1) n

def zero : Bytes := [48]

/-- `Response::new(status)`: `Headers::new()` sets `Date` and `Content-Length: 0` -/
def new (c : Cfg) (status : Nat) (date : Bytes) : Resp :=
  hop c (hop c ⟨status, Headers.empty c.n, none⟩ (.insert c.kDate date)) (.insert c.kCL zero)

def setPayload (c : Cfg) (r : Resp) (ctype body : Bytes) : Resp :=
  let r := hop c r (.insert c.kCT ctype)
  let r := hop c r (.insert c.kCL (dec body.length))
  { r with body := some body }

def dropContent (c : Cfg) (r : Resp) : Resp :=
  let r := { r with body := none }
  let r := hop c r (.remove c.kCT)
  hop c r (.remove c.kCL)

def applyOp (c : Cfg) (r : Resp) : ROp → Resp
  | .h op => hop c r op
  | .x op => hop c r (resolveX c r.headers op)
  | .payload ct b => setPayload c r ct b
  | .drop => dropContent c r

def mayHaveNoLength (status : Nat) : Bool := (100 ≤ status && status ≤ 199) || status = 304

/-- `Response::complete` (with the repair: an empty body-capable response declares `Content-Length: 0`) -/
def complete (c : Cfg) (r : Resp) : Resp :=
  if r.status = 204 then
    let r := if (r.headers.std.get c.kCL).isSome then hop c r (.remove c.kCL) else r
    { r with body := none }
  else match r.body with
    | none =>
      if (r.headers.std.get c.kCL).isNone && !mayHaveNoLength r.status then hop c r (.insert c.kCL zero) else r
    | some _ => r

def build (c : Cfg) (status : Nat) (date : Bytes) (ops : List ROp) : Resp :=
  complete c (ops.foldl (applyOp c) (new c status date))

def crlf : Bytes := [13, 10]
def sep : Bytes := [58, 32]
def setCookiePrefix : Bytes := [83, 101, 116, 45, 67, 111, 111, 107, 105, 101, 58, 32]  -- "Set-Cookie: "

def renderStd (c : Cfg) (kv : Nat × Bytes) : Bytes := c.names.getD kv.1 [] ++ sep ++ kv.2 ++ crlf
def renderX (nv : Bytes × Bytes) : Bytes := nv.1 ++ sep ++ nv.2 ++ crlf
def renderCookie (l : Bytes) : Bytes := setCookiePrefix ++ l ++ crlf

/-- `Headers::write_unchecked_to` -/
def renderHeaders (c : Cfg) (h : Headers) : Bytes :=
  h.std.live.flatMap (renderStd c) ++ h.custom.flatMap renderX ++ h.cookies.flatMap renderCookie ++ crlf

/-- the bytes `send` pushes into its buffer -/
def render (c : Cfg) (r : Resp) : Bytes := c.line r.status ++ renderHeaders c r.headers ++ r.body.getD []

/-- the capacity `send` reserves (`Vec::with_capacity`) -/
def declared (c : Cfg) (r : Resp) : Nat := (c.line r.status).length + r.headers.size + (r.body.getD []).length

/-- each `push_unchecked!` in `send` is within the reserved capacity -/
def noOverrun (c : Cfg) (r : Resp) : Prop := (render c r).length ≤ declared c r

end Ohkami.Response
