import OhkamiModel.P.Fangs
/-! C01 / C04: the search of the finalized router (with fang scopes, after the repair of the compression rule),
returning the fang list of the answering node, the handler if it is a hit, and the captured path params. -/
namespace Ohkami.Fangs
open Ohkami

/-- like `takePats`, also returning the segments captured by param patterns -/
def takePatsP : List Seg → List Bytes → Option (List Bytes × List Bytes)
  | [], ss => some (ss, [])
  | .static c :: ps, s :: ss => if s = c then takePatsP ps ss else none
  | .param :: ps, s :: ss => if s ≠ [] then (takePatsP ps ss).map fun (r, cap) => (r, s :: cap) else none
  | _ :: _, [] => none

def firstKidP : List CN → List Bytes → Option (CN × List Bytes × List Bytes)
  | [], _ => none
  | .mk ps' f' h' ks' :: more, rest =>
    match takePatsP ps' rest with
    | some (r, cap) => some (.mk ps' f' h' ks', r, cap)
    | none => firstKidP more rest

/-- `Node::search_target` + the param store: (fangs of the answering node, handler on a hit, captured params) -/
def searchP : Nat → CN → List Bytes → List Bytes → (List Nat × Option Nat × List Bytes)
  | 0, .mk _ f _ _, _, caps => (f, none, caps)
  | fuel + 1, .mk ps f h ks, ss, caps =>
    match takePatsP ps ss with
    | none => (f, none, caps)
    | some ([], cap) => (f, h, caps ++ cap)
    | some (rest, cap) =>
      let rec go : Nat → CN → List Bytes → List Bytes → (List Nat × Option Nat × List Bytes)
        | 0, .mk _ f _ _, _, caps => (f, none, caps)
        | n + 1, .mk _ f _ ks, rest, caps =>
          match firstKidP ks rest with
          | some (k, [], cap) => (match k with | .mk _ f' h' _ => (f', h', caps ++ cap))
          | some (k, r, cap) => go n k r (caps ++ cap)
          | none => (f, none, caps)
      go fuel (.mk ps f h ks) rest (caps ++ cap)

/-- a route literal: `/a/:x/b` -/
def parseRoute (lit : Bytes) : Route :=
  (Ohkami.segments (Ohkami.normalize lit)).map fun s => match s with
    | 58 :: _ => Seg.param
    | _ => Seg.static s

end Ohkami.Fangs
