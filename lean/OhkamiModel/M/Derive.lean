/-! # C16 — `derive(Schema)` against serde's wire shape

Two transcriptions, kept apart on purpose:

* `Macro.*` — `ohkami_macros/src/openapi.rs` (`schema_of_fields`, `schema_of_variants`) and
  `ohkami_macros/src/openapi/attributes/serde/case.rs` (`Case::apply_to_field / apply_to_variant`), as the code is written;
* `Serde.*` — `serde_derive/src/internals/case.rs` (`RenameRule`) and serde's documented data model: which keys a derived
  `Serialize` writes for a struct / each enum representation, and when a derived `Deserialize` accepts a missing key.

Identifiers are ASCII here (`char::is_uppercase` is Unicode-aware in Rust; `Char.isUpper` is not) — the driver answers
`unmodelled` for anything else.  `none` stands for a panic of the Rust code (`pascal[..1]` on the empty string).
Types of fields are opaque texts: the schema of a field is `<T as Schema>::schema()` whatever `T` is. -/

namespace Ohkami.Derive

abbrev Str := List Char

inductive Rule | lower | upper | pascal | camel | snake | screamingSnake | kebab | screamingKebab
deriving DecidableEq, Repr

def Rule.ofString? : String → Option Rule
  | "lowercase" => some .lower | "UPPERCASE" => some .upper | "PascalCase" => some .pascal | "camelCase" => some .camel
  | "snake_case" => some .snake | "SCREAMING_SNAKE_CASE" => some .screamingSnake | "kebab-case" => some .kebab
  | "SCREAMING-KEBAB-CASE" => some .screamingKebab | _ => none

/-- `str::to_ascii_uppercase` -/
def upper (s : Str) : Str := s.map Char.toUpper
/-- `str::to_ascii_lowercase` -/
def lower (s : Str) : Str := s.map Char.toLower
/-- `str::replace('_', "-")` -/
def dash (s : Str) : Str := s.map fun c => if c = '_' then '-' else c
/-- `s[..1].to_ascii_lowercase() + &s[1..]`; slicing the empty string at 1 panics -/
def lowerFirst : Str → Option Str
  | [] => none
  | c :: cs => some (c.toLower :: cs)

/-- `syn::ext::IdentExt::unraw` -/
def unraw : Str → Str
  | 'r' :: '#' :: rest => rest
  | s => s

/-! ## the macro's case rules (case.rs of ohkami_macros) -/
namespace Macro

/-- the `for ch in field.chars()` loop of `Self::Pascal` in `apply_to_field` (state: `capitalize`) -/
def pascalLoop : Str → Bool → Str
  | [], _ => []
  | c :: cs, cap => if c = '_' then pascalLoop cs true else if cap then c.toUpper :: pascalLoop cs false else c :: pascalLoop cs false

/-- the `for (i, ch) in variant.char_indices()` loop of `Self::Snake` in `apply_to_variant` (state: `i > 0`) -/
def snakeLoop : Str → Bool → Str
  | [], _ => []
  | c :: cs, later => (if later && c.isUpper then ['_'] else []) ++ c.toLower :: snakeLoop cs true

def applyField : Rule → Str → Option Str
  | .lower, s | .snake, s => some s
  | .upper, s => some (upper s)
  | .pascal, s => some (pascalLoop s true)
  | .camel, s => lowerFirst (pascalLoop s true)
  | .screamingSnake, s => some (upper s)
  | .kebab, s => some (dash s)
  | .screamingKebab, s => some (dash (upper s))

def applyVariant : Rule → Str → Option Str
  | .pascal, s => some s
  | .lower, s => some (lower s)
  | .upper, s => some (upper s)
  | .camel, s => lowerFirst s
  | .snake, s => some (snakeLoop s false)
  | .screamingSnake, s => some (upper (snakeLoop s false))
  | .kebab, s => some (dash (snakeLoop s false))
  | .screamingKebab, s => some (dash (upper (snakeLoop s false)))

end Macro

/-! ## serde's case rules (internals/case.rs of serde_derive) -/
namespace Serde

def pascal : Str → Bool → Str
  | [], _ => []
  | ch :: rest, capitalize =>
    if ch = '_' then pascal rest true
    else if capitalize then ch.toUpper :: pascal rest false
    else ch :: pascal rest false

def snake : Str → Nat → Str
  | [], _ => []
  | ch :: rest, i => (if i > 0 && ch.isUpper then ['_'] else []) ++ ch.toLower :: snake rest (i + 1)

def applyVariant : Rule → Str → Option Str
  | .pascal, v => some v
  | .lower, v => some (lower v)
  | .upper, v => some (upper v)
  | .camel, v => lowerFirst v
  | .snake, v => some (snake v 0)
  | .screamingSnake, v => some (upper (snake v 0))
  | .kebab, v => some (dash (snake v 0))
  | .screamingKebab, v => some (dash (upper (snake v 0)))

def applyField : Rule → Str → Option Str
  | .lower, f | .snake, f => some f
  | .upper, f => some (upper f)
  | .pascal, f => some (pascal f true)
  | .camel, f => lowerFirst (pascal f true)
  | .screamingSnake, f => some (upper f)
  | .kebab, f => some (dash f)
  | .screamingKebab, f => some (dash (upper f))

end Serde

/-! ## type definitions (what both sides read) -/

structure Field where
  ident   : Str             -- as written, `r#` included
  rename  : Option Str := none
  skip    : Bool := false
  skipSer : Bool := false
  skipDe  : Bool := false
  dflt    : Bool := false
  skipIf  : Bool := false
  flatten : Bool := false
  withFn  : Bool := false   -- #[openapi(schema_with = "...")]
  option  : Bool := false   -- the type is `Option<inner>`
  ty      : String := ""    -- the type as written
  inner   : String := ""    -- `inner` of `Option<inner>`, else the type itself
deriving Repr

inductive Fields | named (fs : List Field) | unnamed (fs : List Field) | unit
deriving Repr

structure Variant where
  ident     : Str
  rename    : Option Str := none
  renameAll : Option Rule := none
  skip      : Bool := false
  skipSer   : Bool := false
  skipDe    : Bool := false
  fields    : Fields := .unit
deriving Repr

structure StructDef where
  renameAll : Option Rule := none
  cdefault  : Bool := false
  fields    : Fields
deriving Repr

structure EnumDef where
  renameAll       : Option Rule := none
  renameAllFields : Option Rule := none
  tag             : Option Str := none
  content         : Option Str := none
  untagged        : Bool := false
  variants        : List Variant
deriving Repr

/-! ## the schema shape (what the generated builder expression builds) -/

inductive Sch
  | obj (props : List (Str × Bool × Sch)) (flattened : List (Bool × Sch))   -- name, required, schema — in order; flattened members: (all keys optional, schema)
  | enm (names : List Str)                                          -- string().enumerates([...])
  | oneOf (ss : List Sch)
  | anyOf (ss : List Sch)
  | arr (item : Sch)
  | ty (t : String)                                                 -- <T as Schema>::schema()
  | withFn                                                          -- a user function
  | extend (base : Sch) (name : Str) (s : Sch)                      -- Schema::<object>::from(RawSchema::from(base)).property(name, s)
deriving Repr

def Fields.isUnit : Fields → Bool
  | .unit => true
  | _ => false

/-! ## the macro -/
namespace Macro

/-- name of a field / variant: unraw, then `rename_all` (which may panic), then `rename` -/
def name (apply : Rule → Str → Option Str) (ra : Option Rule) (ident : Str) (rename : Option Str) : Option Str :=
  match ra with
  | none => some (rename.getD (unraw ident))
  | some r => (apply r (unraw ident)).map fun n => rename.getD n

def isOptional (cdefault : Bool) (f : Field) : Bool := f.option || cdefault || f.dflt || f.skipDe || f.skipIf

def fieldSch (f : Field) : Sch := if f.withFn then .withFn else .ty f.inner

/-- the loop over named fields of `schema_of_fields`: accumulates `.property / .optional` calls and flatten loops -/
def namedLoop (ra : Option Rule) (cdefault : Bool) : List Field → List (Str × Bool × Sch) → List (Bool × Sch) → Option Sch
  | [], ps, fl => some (.obj ps.reverse fl.reverse)
  | f :: fs, ps, fl =>
    if f.skip || f.skipSer then namedLoop ra cdefault fs ps fl
    else match name applyField ra f.ident f.rename with
      | none => none
      | some n =>
        if f.withFn then namedLoop ra cdefault fs ((n, !isOptional cdefault f, .withFn) :: ps) fl
        else if f.flatten then namedLoop ra cdefault fs ps ((f.option, .ty f.inner) :: fl)
        else namedLoop ra cdefault fs ((n, !isOptional cdefault f, .ty f.inner) :: ps) fl

def schemaOfFields (ra : Option Rule) (cdefault : Bool) : Fields → Option Sch
  | .named fs => namedLoop ra cdefault fs [] []
  | .unnamed [f] => some (if f.withFn then .withFn else .ty f.ty)
  | .unnamed [] => some (.obj [] [])
  | .unit => some (.obj [] [])
  | .unnamed fs => some (.arr (.anyOf ((fs.filter fun f => !(f.skip || f.skipSer)).map fieldSch)))

def tagSch (tag : Str) : Sch := .enm [tag]

/-- `.property(t, ..)` on the schema of a variant's fields (internally tagged) -/
def addTag (s : Sch) (t tag : Str) : Sch :=
  match s with
  | .obj ps fl => .obj (ps ++ [(t, true, tagSch tag)]) fl
  | other => .extend other t (tagSch tag)

/-- `rename_all_of_fields`: the variant's `rename_all` if it has one, else the enum's `rename_all_fields` -/
def ruleOfFields (e : EnumDef) (v : Variant) : Option Rule :=
  match v.renameAll with
  | some r => some r
  | none => e.renameAllFields

def variantSch (e : EnumDef) (v : Variant) : Option Sch :=
  match name applyVariant e.renameAll v.ident v.rename with
  | none => none
  | some tag =>
    match schemaOfFields (ruleOfFields e v) false v.fields with
    | none => none
    | some s =>
      if e.untagged then some s
      else match e.tag, e.content with
        | none, _ => some (if v.fields.isUnit then tagSch tag else .obj [(tag, true, s)] [])
        | some t, none => some (addTag s t tag)
        | some t, some c => some (if v.fields.isUnit then .obj [(t, true, tagSch tag)] [] else .obj [(t, true, tagSch tag), (c, true, s)] [])

def allM {α β} (f : α → Option β) : List α → Option (List β)
  | [] => some []
  | a :: as => match f a with
    | none => none
    | some b => (allM f as).map (b :: ·)

def schemaOfVariants (e : EnumDef) : Option Sch :=
  let written := e.variants.filter fun v => !(v.skip || v.skipSer)
  if e.variants.all (·.fields.isUnit) && e.tag.isNone && !e.untagged then
    (allM (fun v => name applyVariant e.renameAll v.ident v.rename) written).map .enm
  else
    (allM (variantSch e) written).map fun ss => if e.untagged then .anyOf ss else .oneOf ss

end Macro

/-! ## serde: what is written, what may be missing -/
namespace Serde

/-- `Name::serialize_name` after `rename_by_rules`: a `rename` wins, otherwise the rule applies to the unraw identifier -/
def name (apply : Rule → Str → Option Str) (ra : Option Rule) (ident : Str) (rename : Option Str) : Option Str :=
  match rename with
  | some r => some r
  | none => match ra with
    | none => some (unraw ident)
    | some rule => apply rule (unraw ident)

/-- a derived `Serialize` writes the field at all -/
def written (f : Field) : Bool := !(f.skip || f.skipSer)

/-- the key may be absent from the text: `Serialize` may leave it out (`skip_serializing_if`) or `Deserialize` fills it
(`default` on the field or container, `Option`, `skip_deserializing`) -/
def lenient (cdefault : Bool) (f : Field) : Bool := f.skipIf || f.dflt || cdefault || f.option || f.skipDe

/-- keys of a struct with named fields, in order: (key, must be present) — flattened fields contribute their own keys -/
def keys (ra : Option Rule) (cdefault : Bool) (fs : List Field) : Option (List (Str × Bool)) :=
  Macro.allM (fun f => (name applyField ra f.ident f.rename).map fun n => (n, !lenient cdefault f)) (fs.filter fun f => written f && !f.flatten)

/-- the names an all-unit enum writes -/
def unitNames (e : EnumDef) : Option (List Str) :=
  Macro.allM (fun v => name applyVariant e.renameAll v.ident v.rename) (e.variants.filter fun v => !(v.skip || v.skipSer))

/-- the rule the fields of a variant follow: `variant.rename_all_rules().or(container.rename_all_fields_rules())` -/
def variantFieldRule (e : EnumDef) (v : Variant) : Option Rule := match v.renameAll with | some r => some r | none => e.renameAllFields

/-- how a variant appears on the wire -/
inductive Wire
  | bare (tag : Str)                         -- "Tag"
  | keyed (tag : Str)                        -- {"Tag": content}
  | inline (t tag : Str)                     -- {..content fields.., "t": "Tag"}
  | tagOnly (t tag : Str)                    -- {"t": "Tag"}
  | adjacent (t tag c : Str)                 -- {"t": "Tag", "c": content}
  | content                                  -- content alone
deriving DecidableEq

def wire (e : EnumDef) (v : Variant) : Option Wire :=
  (name applyVariant e.renameAll v.ident v.rename).map fun tag =>
    if e.untagged then .content
    else match e.tag, e.content with
      | none, _ => if v.fields.isUnit then .bare tag else .keyed tag
      | some t, none => .inline t tag
      | some t, some c => if v.fields.isUnit then .tagOnly t tag else .adjacent t tag c

end Serde

/-! ## values: what a derived `Serialize` writes for a struct, and validation of an object schema -/

/-- JSON values, as far as validation of an object schema looks at them -/
inductive J
  | null
  | leaf (tag : Nat)                       -- any non-null value of a field type (opaque)
  | obj (kvs : List (Str × J))

/-- what a field holds when the struct is serialized -/
inductive FieldVal
  | omitted                                -- skip_serializing_if said so
  | null                                   -- an Option that is None, written as null
  | val (j : J)                            -- anything else, already serialized

namespace Serde

/-- the key/value pairs a derived `Serialize` writes for a struct with named fields (no flatten) -/
def ser (ra : Option Rule) : List (Field × FieldVal) → Option (List (Str × J))
  | [] => some []
  | (f, v) :: rest =>
    if !(written f) then ser ra rest
    else match name applyField ra f.ident f.rename, ser ra rest with
      | some n, some kvs =>
        match v with
        | .omitted => some kvs
        | .null => some ((n, J.null) :: kvs)
        | .val j => some ((n, j) :: kvs)
      | _, _ => none

/-- the value is one serde can produce for that field, and `leafOK` says the non-null ones fit the field type's schema -/
def admissible (leafOK : Field → J → Bool) (f : Field) : FieldVal → Bool
  | .omitted => f.skipIf
  | .null => false                         -- excluded: the recorded finding KF-C16-option-null
  | .val j => leafOK f j

end Serde

def lookup (k : Str) : List (Str × J) → Option J
  | [] => none
  | (k', v) :: rest => if k' = k then some v else lookup k rest

/-- validation of an object schema whose property schemas are judged by `propOK` -/
def validatesObj (propOK : Str → J → Bool) (props : List (Str × Bool)) (kvs : List (Str × J)) : Bool :=
  props.all fun p => match lookup p.1 kvs with
    | some j => propOK p.1 j
    | none => !p.2

def expect : FieldVal → Option J
  | .omitted => none
  | .null => some J.null
  | .val j => some j

/-- the property schema under name `n` accepts `j`: some written field serialized under `n` has a type whose schema accepts `j` -/
def propOK (leafOK : Field → J → Bool) (ra : Option Rule) (fvs : List (Field × FieldVal)) (n : Str) (j : J) : Bool :=
  fvs.any fun p => Serde.written p.1 && decide (Serde.name Serde.applyField ra p.1.ident p.1.rename = some n) && leafOK p.1 j

/-! ## values of enums: what serde writes per representation, and validation of the shapes the derive builds -/

/-- JSON values as far as the validation of an enum schema looks at them: a string, an object, or anything else (opaque) -/
inductive JV
  | str (s : Str)
  | obj (kvs : List (Str × JV))
  | other (n : Nat)

def lookupV (k : Str) : List (Str × JV) → Option JV
  | [] => none
  | (k', v) :: rest => if k' = k then some v else lookupV k rest

/-- what serde writes for a variant in each representation, given its serialized content -/
def Serde.serVariant : Serde.Wire → JV → JV
  | .bare tag, _ => .str tag
  | .keyed tag, c => .obj [(tag, c)]
  | .inline t tag, c => (match c with | .obj kvs => .obj ((t, .str tag) :: kvs) | o => o)
  | .tagOnly t tag, _ => .obj [(t, .str tag)]
  | .adjacent t tag c', c => .obj [(t, .str tag), (c', c)]
  | .content, c => c

/-- JSON Schema validation for the shapes the derive builds; `leaf` judges the opaque ones (`<T as Schema>::schema()`, user functions, arrays) -/
def validates (leaf : Sch → JV → Bool) : Nat → Sch → JV → Bool
  | 0, _, _ => false
  | f + 1, .obj props flat, .obj kvs =>
    flat.isEmpty && props.all fun p => match lookupV p.1 kvs with
      | some j => validates leaf f p.2.2 j
      | none => !p.2.1
  | _ + 1, .obj _ _, _ => false
  | _ + 1, .enm names, .str s => names.contains s
  | _ + 1, .enm _, _ => false
  | f + 1, .oneOf ss, j => (ss.filter fun s => validates leaf f s j).length == 1
  | f + 1, .anyOf ss, j => ss.any fun s => validates leaf f s j
  | _ + 1, s, j => leaf s j

/-- how deep the wrapper of a representation nests the content -/
def Serde.Wire.depth : Serde.Wire → Nat
  | .keyed _ | .adjacent _ _ _ => 1
  | _ => 0

/-- a written variant of an externally tagged enum: its serialized name, whether it is a unit variant, the schema of its content -/
structure ExtVariant where
  tag : Str
  unit : Bool
  content : Sch

def ExtVariant.schema (v : ExtVariant) : Sch := if v.unit then .enm [v.tag] else .obj [(v.tag, true, v.content)] []
def ExtVariant.value (v : ExtVariant) (cj : JV) : JV := if v.unit then .str v.tag else .obj [(v.tag, cj)]


/-! ## reading a schema shape -/

/-- (name, required) of the direct properties of an object schema -/
def Sch.props : Sch → List (Str × Bool)
  | .obj ps _ => ps.map fun p => (p.1, p.2.1)
  | _ => []

/-- how a variant schema reads as a wire representation -/
def Sch.wire (unit : Bool) : Sch → Option Serde.Wire
  | .enm [tag] => some (.bare tag)
  | .obj [(tag, true, _)] [] => if unit then none else some (.keyed tag)
  | _ => none

end Ohkami.Derive
