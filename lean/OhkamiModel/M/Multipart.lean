import OhkamiModel.Http
/-! C10 (and C08) model: `Multipart::parse`, `Multipart::next` and the derived-struct decoding over text fields,
`File`, `Vec<File>`, `Option<File>` (ohkami_lib/src/serde_multipart/{parse.rs, de.rs, file.rs}, as repaired),
on top of models of the byte_reader primitives the parser uses. -/
namespace Ohkami.Multipart
open Ohkami

def CR : UInt8 := 13
def LF : UInt8 := 10
def CRLF : Bytes := [13, 10]
def DQ : UInt8 := 34
def ascii (s : String) : Bytes := s.toList.map (·.toNat.toUInt8)

/-- `Reader::read_until(pattern)`: the bytes before the first occurrence of `pattern` and the rest starting at it;
everything and `[]` if it does not occur (an empty pattern occurs at once) -/
def readUntil (pat : Bytes) : Bytes → Bytes × Bytes
  | [] => ([], [])
  | b :: t => if pat.isPrefixOf (b :: t) then ([], b :: t) else let (a, r) := readUntil pat t; (b :: a, r)

def consume (tok bs : Bytes) : Option Bytes := if tok.isPrefixOf bs then some (bs.drop tok.length) else none

def readWhile (p : UInt8 → Bool) : Bytes → Bytes × Bytes
  | [] => ([], [])
  | b :: t => if p b then let (a, r) := readWhile p t; (b :: a, r) else ([], b :: t)

def isKebab (b : UInt8) : Bool := (97 ≤ b && b ≤ 122) || (65 ≤ b && b ≤ 90) || b == 45

/-- `read_quoted_by(b'"', b'"')` -/
def readQuoted (bs : Bytes) : Option (Bytes × Bytes) :=
  match bs with
  | q :: t => if q != DQ then none else
    let (inner, r) := readWhile (· != DQ) t
    (match r with | c :: r' => if c == DQ then some (inner, r') else none | [] => none)
  | [] => none

def lower (b : UInt8) : UInt8 := if 65 ≤ b && b ≤ 90 then b + 32 else b
def eqIgnoreCase (a b : Bytes) : Bool := a.map lower == b.map lower

structure FileV where
  filename : Bytes
  mimetype : Bytes
  content : Bytes
deriving Repr, DecidableEq

inductive Part where
  | text (name text : Bytes)
  | file (name : Bytes) (f : FileV)
deriving Repr, DecidableEq

structure HeaderAcc where
  name : Bytes := []
  mimetype : Bytes := []
  filename : Option Bytes := none

/-- the part-header loop; `none` = the form is refused -/
def headers : Nat → HeaderAcc → Bytes → Option (HeaderAcc × Bytes)
  | 0, _, _ => none
  | fuel + 1, acc, bs =>
    match consume CRLF bs with
    | some r => some (acc, r)
    | none =>
      let (h, r) := readWhile isKebab bs
      if h.isEmpty then none else
      let step : Option (HeaderAcc × Bytes) :=
        if eqIgnoreCase h (ascii "Content-Type") then
          (consume (ascii ": ") r).bind fun r =>
            let (mt, r') := readUntil CRLF r
            if !Http.validUtf8 mt then none else if mt == ascii "multipart/mixed" then none else some ({ acc with mimetype := mt }, r')
        else if eqIgnoreCase h (ascii "Content-Disposition") then
          (consume (ascii ": form-data; name=") r).bind fun r =>
            (readQuoted r).bind fun (nm, r) =>
              if !Http.validUtf8 nm then none else
              match consume (ascii "; ") r with
              | none => some ({ acc with name := nm }, r)
              | some r =>
                (consume (ascii "filename=") r).bind fun r =>
                  (readQuoted r).bind fun (fnm, r) =>
                    if !Http.validUtf8 fnm then none else some ({ acc with name := nm, filename := some fnm }, r)
        else some (acc, (readWhile (· != CR) r).2)
      match step with
      | none => none
      | some (acc', r) => (consume CRLF r).bind fun r => headers fuel acc' r

def TEXT_PLAIN : Bytes := [116, 101, 120, 116, 47, 112, 108, 97, 105, 110]

/-- the part loop of `Multipart::parse` after the boundary line has been read -/
def parts : Nat → Bytes → Bytes → List Part → Option (List Part)
  | 0, _, _, _ => none
  | fuel + 1, boundary, bs, acc =>
    if let some r := consume CRLF bs then
      match headers (r.length + 1) {} r with
      | none => none
      | some (h, r) =>
        -- the delimiter that closes a part is CRLF "--" boundary (RFC 2046 5.1.1): "--" boundary in the middle of a line is content
        let (content, r') := readUntil (CRLF ++ boundary) r
        match consume (CRLF ++ boundary) r' with
        | none => none
        | some r'' =>
          match h.filename with
          | none => if Http.validUtf8 content then parts fuel boundary r'' (acc ++ [.text h.name content]) else none
          | some fnm => parts fuel boundary r'' (acc ++ [.file h.name ⟨fnm, if h.mimetype.isEmpty then TEXT_PLAIN else h.mimetype, content⟩])          -- a part without Content-Type is text/plain (RFC 7578 4.4)
    else some acc          -- `--` (the end) or anything else ends the loop

def parse (input : Bytes) : Option (List Part) :=
  let (boundary, r) := readUntil CRLF input
  -- a form without any part is just the close delimiter
  if boundary.length ≥ 2 && boundary.drop (boundary.length - 2) == [45, 45] && (r.isEmpty || r == CRLF) then some [] else
  parts (input.length + 1) boundary r []

inductive Item where
  | text (t : Bytes)
  | files (l : List FileV)
deriving Repr

/-- what a browser sends for a file input with no file chosen: no file name, no content -/
def unselected (f : FileV) : Bool := f.filename.isEmpty && f.content.isEmpty

/-- a file part of that name -/
def sameFile (n : Bytes) : Part → Bool
  | .file n' _ => n' == n
  | _ => false
def fileOf : Part → Option FileV
  | .file _ f => some f
  | _ => none

/-- `Multipart::next`: pops from the back; the file parts of one name are grouped, adjacent or not; an unselected file input is no file, wherever it stands
    among the files of its name (since fix fix 6d7aeee; before it only a group that BEGAN with one, from the back, was empty, and `[file, unselected]` was refused) -/
def next (ps : List Part) : Option (Bytes × Item × List Part) :=
  match ps.reverse with
  | [] => none
  | .text n t :: rest => some (n, .text t, rest.reverse)
  | .file n f :: rest =>
    -- the other files of this name, wherever they stand in the form (parts of one name need not be adjacent), last first
    let fs := (f :: (rest.filter (sameFile n)).filterMap fileOf).filter fun f => !unselected f
    some (n, .files fs, (rest.filter fun p => !sameFile n p).reverse)

inductive FTy where | text | optText | file | optFile | files
deriving Repr, DecidableEq

inductive Val where
  | text (t : Bytes) | none | some (v : Val) | file (f : FileV) | seq (l : List FileV)
deriving Repr

/-- one field; `none` = shape mismatch (an error, never a wrong value) -/
def decodeField : FTy → Item → Option Val
  | .text, .text t => some (.text t)
  | .optText, .text t => some (if t.isEmpty then .none else .some (.text t))
  | .file, .files [f] => some (.file f)
  | .optFile, .files [] => some .none
  | .optFile, .text [] => some .none           -- `deserialize_option` answers None for the empty text as well
  | .optText, .files [] => some .none
  | .optFile, .files [f] => some (.some (.file f))
  | .files, .files l => some (.seq l.reverse)        -- `SeqAccess` pops from the back of the group
  | _, _ => none

/-- an unknown field is skipped whatever it holds (`deserialize_ignored_any` = `visit_unit`, fix 693709b; before it a group that was not
    exactly one file was refused even then) -/
def ignorable : Item → Bool
  | _ => true

def loop (fields : List (Bytes × FTy × Bool)) : Nat → List Part → List (Bytes × Val) → Option (List (Bytes × Val))
  | 0, _, _ => none
  | fuel + 1, ps, seen =>
    match next ps with
    | none => some seen
    | some (n, item, rest) =>
      match fields.find? (·.1 = n) with
      | none => if ignorable item then loop fields fuel rest seen else none
      | some (_, ty, _) =>
        if (seen.find? (·.1 = n)).isSome then none else
        match decodeField ty item with
        | none => none
        | some v => loop fields fuel rest (seen ++ [(n, v)])

def fill : List (Bytes × FTy × Bool) → List (Bytes × Val) → Option (List (Bytes × Val))
  | [], _ => some []
  | (n, ty, dflt) :: rest, seen =>
    match seen.find? (·.1 = n), fill rest seen with
    | _, none => none
    | some nv, some fs => some (nv :: fs)
    | none, some fs =>
      if ty == .optText || ty == .optFile then some ((n, .none) :: fs)
      else if dflt && ty == .files then some ((n, .seq []) :: fs) else none

/-- `serde_multipart::from_bytes::<Struct>` -/
def fromBytes (fields : List (Bytes × FTy × Bool)) (input : Bytes) : Option (List (Bytes × Val)) :=
  (parse input).bind fun ps => (loop fields (ps.length + 1) ps []).bind fun seen => fill fields seen

end Ohkami.Multipart
