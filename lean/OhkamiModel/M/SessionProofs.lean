import OhkamiModel.M.Session
/-! C05: nothing of an earlier request is observable while a later one is handled — the residue argument of `respond`
is `none` at every call of the loop, for every connection script. -/
namespace Ohkami.Session
open Ohkami Ohkami.Http Ohkami.P

theorem readWhile_prefix (p : UInt8 → Bool) : ∀ bs : Bytes, bs = (readWhile p bs).1 ++ (readWhile p bs).2 := by
  intro bs
  induction bs with
  | nil => simp [readWhile]
  | cons b bs ih =>
    simp only [readWhile]
    split
    · simp only [List.cons_append]; rw [← ih]
    · simp

theorem method_head_nonzero : ∀ m ∈ Gen.methodBytes, m.headD 0 ≠ 0 := by decide

theorem methodOf_some_mem (m : Bytes) (s : String) (h : methodOf m = some s) : m ∈ Gen.methodBytes := by
  unfold methodOf at h
  cases hi : Gen.methodBytes.idxOf? m with
  | none => simp [hi] at h
  | some i =>
    have := List.idxOf?_eq_some_iff.mp hi
    obtain ⟨hlt, hget, _⟩ := this
    rw [← hget]; exact List.getElem_mem _

/-- an accepted (or refused-after-the-method) first read starts with a method letter, never with NUL -/
theorem parse_ok_head (first more : Bytes) (p : Parsed) (h : parse first more = .ok p) : first.headD 0 ≠ 0 := by
  unfold parse at h
  split at h
  rename_i m r0 hrw
  split at h
  · cases h
  · rename_i method hm
    have hmem := methodOf_some_mem m method hm
    have hne := method_head_nonzero m hmem
    have hpre := readWhile_prefix (· != SP) first
    rw [hrw] at hpre
    simp only at hpre
    rw [hpre]
    cases m with
    | nil => simp at hne
    | cons a t => simpa using hne

/-- the application with its residue argument forced to `none` -/
def forget (app : App) : App := ⟨fun _ p => app.respond none p, app.reject⟩

/-- **No residue.** Whatever the connection delivers, the loop never hands the handler anything left over from an
earlier request: running the application and running it with the residue argument forced to "as after init" give the
same responses and the same end, for every script — provided the session starts from a fresh request object (or any
state in which `clear` will fire). -/
theorem residue_irrelevant (app : App) : ∀ (fuel : Nat) (res : Residue) (conn : Conn),
    (res.parsed = none ∨ res.buf0 ≠ 0) → run app fuel res conn = run (forget app) fuel res conn := by
  intro fuel
  induction fuel with
  | zero => intros; rfl
  | succ n ih =>
    intro res conn hres
    have hclear : (clear res).parsed = none := by
      unfold clear
      rcases hres with h | h
      · split <;> simp [h]
      · simp [h]
    simp only [run]
    split
    · rfl
    · rename_i first rest _
      split
      · rfl
      · rfl
      · rfl
      · rename_i p hp
        have hnz := parse_ok_head first rest.flatten p hp
        simp only [hclear]
        split
        · rfl
        · rename_i rest' _
          split
          · rfl
          · rw [ih { parsed := some p, buf0 := first.headD 0 } ⟨rest', conn.eof⟩ (Or.inr hnz)]
            rfl

end Ohkami.Session
