import OhkamiModel.Itoa
import OhkamiModel.Hex
import OhkamiModel.GenNum
/-! C20: `itoa` and `hexized` driven by what the translator read from the source (the `unroll!` digit list, the
nibble match arms), and their equality with the hand-written models the theorems of Itoa.lean / Hex.lean are about. -/
namespace Ohkami.Num

/-- the `unroll!` macro, for an arbitrary list of digit positions -/
def goList : List Nat → Nat → List Nat × Nat
  | [], n => ([], n)
  | d :: tl, n =>
    if d ≤ 19 ∧ n ≥ 10 ^ d then
      let r := goList tl n
      let q := r.2 / 10 ^ d
      (r.1 ++ [q], r.2 - 10 ^ d * q)
    else ([], n)

/-- `itoa` as the source has it now -/
def itoaGen (n : Nat) : List Nat := let r := goList Gen.itoaUnroll n; r.1 ++ [r.2]

theorem goList_range (k d n : Nat) : goList (List.range' d k) n = go k d n := by
  induction k generalizing d n with
  | zero => simp [goList, go]
  | succ k ih =>
    simp only [List.range'_succ, goList, go, ih]

theorem unroll_is_range : Gen.itoaUnroll = List.range' 1 19 := by decide

theorem itoaGen_eq (n : Nat) : itoaGen n = itoaDigits n := by
  unfold itoaGen itoaDigits
  rw [unroll_is_range, goList_range]

/-- the nibble → character step of `hexized_bytes`, with the `unreachable_unchecked` arm explicit -/
def hexCharGen (h : Nat) : Option Nat :=
  (Gen.hexArms.find? fun a => a.1 ≤ h ∧ h ≤ a.2.1).map fun a => a.2.2 + h

theorem hexCharGen_eq : ∀ h : Fin 16, hexCharGen h.val = some (hexChar h.val) := by decide

/-- `hexized` as the source has it now; `none` = the unreachable arm was reached (undefined behaviour) -/
def hexizedGen (n : Nat) : Option (List Nat) := (nibbles n).mapM hexCharGen

theorem hexizedGen_eq (n : Nat) : hexizedGen n = some (hexized n) := by
  unfold hexizedGen hexized
  have hs := hexized_safe n
  generalize nibbles n = l at hs
  induction l with
  | nil => rfl
  | cons h t ih =>
    have h15 : h ≤ 15 := hs h (by simp)
    have e := hexCharGen_eq ⟨h, by omega⟩
    simp only at e
    simp only [List.mapM_cons, e, List.map_cons]
    rw [ih (fun x hx => hs x (by simp [hx]))]
    rfl

end Ohkami.Num
