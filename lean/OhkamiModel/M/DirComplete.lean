import OhkamiModel.M.Dir
import OhkamiModel.P.StaticTable
/-! C19: every file of the list is registered, under its own index, at each of its paths; the table is well-formed. -/
namespace Ohkami.Dir
open Ohkami

theorem validSegment_ne_nil {s : Bytes} (h : validSegment s = true) : s ≠ [] := by
  intro e; subst e; simp [validSegment] at h

/-- every file of the list is registered at each of its paths, under its own index; the registered segments are valid ones -/
theorem derive_complete (mount omits : List Bytes) : ∀ (files : List FileEntry) (i : Nat) (routes : List (Route × Nat)),
    derive mount omits files i = .ok routes →
    ∀ (k : Nat) (f : FileEntry), files[k]? = some f →
      ∃ paths mime, fileRoutes omits f = .ok (paths, mime) ∧ ∀ p ∈ paths, ((mount ++ p).map Seg.static, i + k) ∈ routes := by
  intro files
  induction files with
  | nil => intro i routes _ k f hk; simp at hk
  | cons f0 rest ih =>
    intro i routes h k f hk
    simp only [derive] at h
    split at h
    · cases h
    next paths mime hfr =>
      split at h
      · cases h
      · split at h
        · cases h
        next more hmore =>
          cases h
          cases k with
          | zero =>
            simp at hk; subst hk
            refine ⟨paths, mime, hfr, ?_⟩
            intro p hp
            exact List.mem_append_left _ (List.mem_map.mpr ⟨p, hp, by simp⟩)
          | succ k =>
            simp at hk
            obtain ⟨paths', mime', h1, h2⟩ := ih (i + 1) more hmore k f hk
            refine ⟨paths', mime', h1, ?_⟩
            intro p hp
            have := h2 p hp
            exact List.mem_append_right _ (by rw [show i + (k + 1) = i + 1 + k by omega]; exact this)

/-- the derived table holds no empty static segment (the mount route has none, file names are checked) -/
theorem derive_wf (mount omits : List Bytes) (hmount : ∀ s ∈ mount, s ≠ []) : ∀ (files : List FileEntry) (i : Nat) (routes : List (Route × Nat)),
    derive mount omits files i = .ok routes → WFRoutes routes := by
  intro files
  induction files with
  | nil => intro i routes h; simp [derive] at h; subst h; intro rh hrh; simp at hrh
  | cons f0 rest ih =>
    intro i routes h
    simp only [derive] at h
    split at h
    · cases h
    next paths mime hfr =>
      split at h
      · cases h
      next hvalid =>
        split at h
        · cases h
        next more hmore =>
          cases h
          intro rh hrh hbad
          rcases List.mem_append.mp hrh with h1 | h2
          · obtain ⟨p, hp, rfl⟩ := List.mem_map.mp h1
            simp only [List.map_append, List.mem_append, List.mem_map] at hbad
            rcases hbad with ⟨b, hb, he⟩ | ⟨b, hb, he⟩
            · cases he; exact hmount _ hb rfl
            · cases he
              have : ¬ (paths.any fun p => p.any fun s => !validSegment s) = true := hvalid
              apply this
              simp only [List.any_eq_true]
              exact ⟨p, hp, [], hb, by simp [validSegment]⟩
          · exact ih (i + 1) more hmore rh h2 hbad

end Ohkami.Dir
