import OhkamiModel.M.SessionProofs
/-! C05: one request per read — the responses of a keep-alive connection are what each request gets alone (helper lemmas and proof; statement repeated in Proofs/C05.lean) -/
namespace Ohkami.Session
open Ohkami Ohkami.Http

/-- `finish` looks at `more` only to complete an announced body; once it is complete, further bytes change nothing;
a refusal never depends on `more` -/
theorem finish_more (method : String) (np : Bytes) (q : Option Bytes) (r6 a b : Bytes) :
    (∀ p, finish method np q r6 a = .ok p → finish method np q r6 (a ++ b) = .ok p) ∧
    (∀ s, finish method np q r6 a = .reject s → finish method np q r6 (a ++ b) = .reject s) := by
  unfold finish
  cases hh : headers (r6.length + 1) r6 [] [] with
  | reject s => simp
  | close => simp
  | panic s => simp
  | ok t =>
    obtain ⟨std, cus, remaining⟩ := t
    simp only
    cases hcl : std.find? (·.1 = Gen.contentLengthIndex) with
    | none => simp
    | some kv =>
      obtain ⟨i, v⟩ := kv
      simp only
      by_cases hbad : (v.isEmpty || !v.all isDigit) = true
      · simp [hbad]
      · have hbad' : (v.isEmpty || !v.all isDigit) = false := by simpa using hbad
        simp only [hbad', Bool.false_eq_true, if_false]
        generalize (if decimal v > USIZE_MAX then USIZE_MAX else decimal v) = len
        by_cases h0 : len = 0
        · simp [h0]
        · simp only [h0, if_false]
          by_cases hlim : len ≥ PAYLOAD_LIMIT
          · simp [hlim]
          · simp only [hlim, if_false]
            by_cases hr0 : remaining.length = 0
            · simp only [hr0, if_true]
              by_cases hm : a.length ≥ len
              · have hm' : (a ++ b).length ≥ len := by simp only [List.length_append]; omega
                simp only [hm, hm', if_true, List.take_append_of_le_length hm]
                exact ⟨fun p h => h, fun s h => (by cases h)⟩
              · simp only [hm, if_false]
                constructor <;> intro _ h <;> cases h
            · simp only [hr0, if_false]
              by_cases hle : len ≤ remaining.length
              · simp [hle]
              · simp only [hle, if_false]
                by_cases hm : a.length ≥ len - remaining.length
                · have hm' : (a ++ b).length ≥ len - remaining.length := by simp only [List.length_append]; omega
                  simp only [hm, hm', if_true, List.take_append_of_le_length hm]
                  exact ⟨fun p h => h, fun s h => (by cases h)⟩
                · simp only [hm, if_false]
                  constructor <;> intro _ h <;> cases h

theorem parse_more (first a b : Bytes) :
    (∀ p, parse first a = .ok p → parse first (a ++ b) = .ok p) ∧ (∀ s, parse first a = .reject s → parse first (a ++ b) = .reject s) := by
  unfold parse
  generalize P.readWhile (· != P.SP) first = mr
  obtain ⟨m, r0⟩ := mr
  simp only
  cases methodOf m with
  | none => simp
  | some method =>
    simp only
    cases r0 with
    | nil => simp
    | cons c r1 =>
      simp only
      by_cases hc : (c != P.SP) = true
      · simp [hc]
      · have hc' : (c != P.SP) = false := by simpa using hc
        simp only [hc', Bool.false_eq_true, if_false]
        generalize P.readWhile (fun b => b != P.SP && b != QM) r1 = pr
        obtain ⟨path, r2⟩ := pr
        simp only
        by_cases hsl : (path.head? != some SLASH) = true
        · simp [hsl]
        · have hsl' : (path.head? != some SLASH) = false := by simpa using hsl
          simp only [hsl', Bool.false_eq_true, if_false]
          by_cases hu : (!validUtf8 path) = true
          · simp [hu]
          · have hu' : (!validUtf8 path) = false := by simpa using hu
            simp only [hu', Bool.false_eq_true, if_false]
            split
            · simp
            · rename_i query r5 _
              cases P.consume HTTP11 r5 with
              | none => simp
              | some r6 => exact finish_more _ _ _ _ _ _

end Ohkami.Session

namespace Ohkami.Session
open Ohkami Ohkami.Http

def BUF : Nat := Gen.BUF_SIZE

/-- the chunk holds one complete request and nothing else: parsed on its own it is accepted or refused, an accepted one ends
exactly where the chunk ends, a refused one fits the buffer -/
def Exact (c : Bytes) : Prop :=
  c ≠ [] ∧ match parse (c.take BUF) (c.drop BUF) with
    | .ok p => needOf (c.take BUF) p = (c.drop BUF).length
    | .reject _ => True
    | _ => False

/-- what the request in `c` is answered on a fresh connection, and whether the session ends after it -/
def answer (app : App) (c : Bytes) : Option (Bytes × Bool) :=
  match parse (c.take BUF) (c.drop BUF) with
  | .ok p => some (app.respond none p, wantsClose p)
  | .reject s => some (app.reject s, true)
  | _ => none

/-- the responses of a connection, computed request by request from what each gets alone -/
def expected (app : App) : List Bytes → List Bytes
  | [] => []
  | c :: cs => match answer app c with
    | some (out, close) => out :: (if close then [] else expected app cs)
    | none => []

theorem readSome_cons (c : Bytes) (rest : List Bytes) (hc : c ≠ []) :
    readSome BUF (c :: rest) = some (c.take BUF, if c.length ≤ BUF then rest else c.drop BUF :: rest) := by
  have : c.isEmpty = false := by cases c <;> simp_all
  simp only [readSome, this, Bool.false_eq_true, if_false]
  by_cases h : c.length ≤ BUF
  · simp [h, List.take_of_length_le h]
  · simp [h]

theorem readExact_chunk (c : Bytes) (rest : List Bytes) (hc : c ≠ []) : readExact c.length (c :: rest) = some (c, rest) := by
  cases c with
  | nil => exact absurd rfl hc
  | cons x xs =>
    rw [show (x :: xs).length = xs.length + 1 from rfl, readExact]
    simp

/-- **One request per read.**  If every chunk holds exactly one complete request, the responses written on the connection are,
in order, what each request is answered alone on a fresh connection, and nothing is written after the response to a request asking
`Connection: close` — for every application, any number of requests, any bytes. -/
theorem one_per_chunk (app : App) : ∀ (cs : List Bytes), (∀ c ∈ cs, Exact c) → ∀ (fuel : Nat), cs.length < fuel → ∀ (res : Residue) (eof : Bool),
    (run (forget app) fuel res ⟨cs, eof⟩).1 = expected app cs := by
  intro cs
  induction cs with
  | nil =>
    intro _ fuel hf res eof
    cases fuel with
    | zero => simp at hf
    | succ n => simp [run, readSome, expected]
  | cons c cs ih =>
    intro hex fuel hf res eof
    cases fuel with
    | zero => simp at hf
    | succ n =>
      have hexc := hex c (List.mem_cons_self ..)
      have hex' : ∀ c' ∈ cs, Exact c' := fun c' hc' => hex c' (List.mem_cons_of_mem _ hc')
      have hfn : cs.length < n := by simp at hf; omega
      obtain ⟨hne, hshape⟩ := hexc
      have hflat : (if c.length ≤ BUF then cs else c.drop BUF :: cs).flatten = c.drop BUF ++ cs.flatten := by
        by_cases h : c.length ≤ BUF
        · simp [h, List.drop_of_length_le h]
        · simp [h]
      simp only [run]
      have hrs := readSome_cons c cs hne
      unfold BUF at hrs hflat hshape
      simp only [hrs, hflat]
      unfold expected answer
      unfold BUF
      cases hp : parse (c.take Gen.BUF_SIZE) (c.drop Gen.BUF_SIZE) with
      | close => simp [hp] at hshape
      | panic s => simp [hp] at hshape
      | reject s =>
        simp only [hp] at hshape
        have hp' := (parse_more (c.take Gen.BUF_SIZE) (c.drop Gen.BUF_SIZE) cs.flatten).2 s hp
        rw [hp']
        simp [forget]
      | ok p =>
        simp only [hp] at hshape
        have hp' := (parse_more (c.take Gen.BUF_SIZE) (c.drop Gen.BUF_SIZE) cs.flatten).1 p hp
        rw [hp']
        dsimp only
        rw [hshape]
        have hre : readExact (c.drop Gen.BUF_SIZE).length (if c.length ≤ Gen.BUF_SIZE then cs else c.drop Gen.BUF_SIZE :: cs) = some (c.drop Gen.BUF_SIZE, cs) := by
          by_cases h : c.length ≤ Gen.BUF_SIZE
          · simp [h, List.drop_of_length_le h, readExact]
          · simp only [h, if_false]
            exact readExact_chunk _ _ (by intro hd; have := congrArg List.length hd; simp at this; omega)
        rw [hre]
        dsimp only
        by_cases hw : wantsClose p = true
        · simp [hw, forget]
        · have hw' : wantsClose p = false := by simpa using hw
          simp only [hw', Bool.false_eq_true, if_false]
          have := ih hex' n hfn { parsed := some p, buf0 := (c.take Gen.BUF_SIZE).headD 0 } eof
          simp only [forget] at this ⊢
          rw [this]

/-- the same statement for the application as it is (it may look at the residue: by `residue_irrelevant` it cannot matter) -/
theorem one_per_chunk' (app : App) (cs : List Bytes) (hex : ∀ c ∈ cs, Exact c) (fuel : Nat) (hf : cs.length < fuel) (eof : Bool) :
    (run app fuel ⟨none, 0⟩ ⟨cs, eof⟩).1 = expected app cs := by
  rw [residue_irrelevant app fuel ⟨none, 0⟩ ⟨cs, eof⟩ (Or.inl rfl)]
  exact one_per_chunk app cs hex fuel hf _ eof

/-- in particular a request alone on a fresh connection gets `answer` — which is what `expected` strings together -/
theorem alone (app : App) (c : Bytes) (hex : Exact c) : (run app 2 ⟨none, 0⟩ ⟨[c], true⟩).1 = (match answer app c with | some (out, _) => [out] | none => []) := by
  rw [one_per_chunk' app [c] (by intro x hx; simp at hx; subst hx; exact hex) 2 (by simp) true]
  simp only [expected]
  cases answer app c with
  | none => rfl
  | some oc => obtain ⟨out, close⟩ := oc; cases close <;> simp

end Ohkami.Session
