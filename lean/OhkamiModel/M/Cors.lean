import OhkamiModel.Basic
/-! C14 model: the `CORS` builder and `CORSProc::bite` (ohkami/src/fang/builtin/cors.rs), the automatic OPTIONS handler
`Handler::default_options_with` (ohkami/src/fang/handler/mod.rs) and the 501 -> 200 rewrite. Header values are bytes. -/
namespace Ohkami.Cors

def ascii (s : String) : Bytes := s.toList.map (·.toNat.toUInt8)
def STAR : Bytes := [42]
def GET : Bytes := ascii "GET"
def HEAD : Bytes := ascii "HEAD"
def OPTIONS : Bytes := ascii "OPTIONS"
def SEP : Bytes := [44, 32]

structure Policy where
  origin : Bytes
  credentials : Bool
  allowHeaders : Option Bytes      -- joined with ", "
  exposeHeaders : Option Bytes
  maxAge : Option Nat
deriving Repr

/-- `CORS::new(origin)` then the builder calls: `AllowCredentials` is ignored on the wildcard origin -/
def mkPolicy (origin : Bytes) (wantCredentials : Bool) (allowHeaders exposeHeaders : Option Bytes) (maxAge : Option Nat) : Policy :=
  ⟨origin, wantCredentials && origin != STAR, allowHeaders, exposeHeaders, maxAge⟩

/-- what the inside of the fang answered -/
structure Inner where
  status : Nat
  acam : Option Bytes              -- Access-Control-Allow-Methods set by the automatic OPTIONS handler
  vary : Option Bytes
  hasBody : Bool
deriving Repr

structure Out where
  status : Nat
  acao : Option Bytes
  acac : Option Bytes
  aceh : Option Bytes
  acma : Option Bytes
  acah : Option Bytes
  acam : Option Bytes
  vary : Option Bytes
  hasBody : Bool
deriving Repr

def intercalate (sep : Bytes) : List Bytes → Bytes
  | [] => []
  | [x] => x
  | x :: xs => x ++ sep ++ intercalate sep xs

/-- `default_options_with`: the methods advertised for a route -/
def available (methods : List Bytes) : List Bytes :=
  methods ++ (if methods.contains GET then [HEAD] else []) ++ [OPTIONS]

/-- the automatic OPTIONS handler of a route with the given registered methods -/
def defaultOptions (methods : List Bytes) (acrm : Option Bytes) : Inner :=
  match acrm with
  | some m =>
    if (available methods).contains m then ⟨501, some (intercalate SEP (available methods)), none, false⟩
    else ⟨400, some (intercalate SEP (available methods)), none, false⟩
  | none => ⟨404, none, none, false⟩

def decDigits : Nat → Nat → List UInt8
  | 0, _ => []
  | fuel + 1, n => if n < 10 then [(48 + n).toUInt8] else decDigits fuel (n / 10) ++ [(48 + n % 10).toUInt8]
def dec (n : Nat) : Bytes := decDigits (n + 1) n

def appendVary (v : Option Bytes) (x : Bytes) : Option Bytes :=
  match v with | some old => some (old ++ SEP ++ x) | none => some x

/-- `CORSProc::bite`, applied to the inner response -/
def bite (p : Policy) (isOptions : Bool) (acrh : Option Bytes) (r : Inner) : Out :=
  let vary := if p.origin == STAR then some (ascii "Origin") else r.vary
  let base : Out := ⟨r.status, some p.origin, if p.credentials then some (ascii "true") else none, p.exposeHeaders, none, none, r.acam, vary, r.hasBody⟩
  if !isOptions then base else
  let o : Out := { base with acma := p.maxAge.map dec }
  let o : Out := match p.allowHeaders <|> acrh with
    | some ah => { o with acah := some ah, vary := appendVary o.vary (ascii "Access-Control-Request-Headers") }
    | none => o
  if o.status = 501 then { o with status := 200, hasBody := false } else o

end Ohkami.Cors
