import OhkamiModel.M.ResponseProofs
/-! C03: the header store as the map it stands for, the lines written, and framing (helper lemmas and proofs; statements repeated in Proofs/C03.lean) -/
namespace Ohkami
open IndexMap

theorem slot_lt (m : IndexMap) (n : Nat) (hw : m.WF n) (k p : Nat) (h : m.slot k = some p) : p < m.values.length := by
  obtain ⟨v, hv⟩ := hw.slot_ok k p h
  exact (List.getElem?_eq_some_iff.mp hv).1

theorem get_set_self (m : IndexMap) (n : Nat) (hw : m.WF n) (k : Nat) (hk : k < n) (v : Bytes) : (m.set k v).get k = some v := by
  have hk' : k < m.index.length := by rw [hw.len]; exact hk
  unfold IndexMap.get IndexMap.set
  rw [slot_set_self m k _ _ hk']
  simp

theorem get_set_other (m : IndexMap) (n : Nat) (hw : m.WF n) (k k' : Nat) (v : Bytes) (h : k' ≠ k) : (m.set k v).get k' = m.get k' := by
  unfold IndexMap.get IndexMap.set
  rw [slot_set_other m k k' _ _ h]
  cases hs : m.slot k' with
  | none => rfl
  | some p =>
    have := slot_lt m n hw k' p hs
    simp [List.getElem?_append_left this]

theorem get_delete_self (m : IndexMap) (n : Nat) (hw : m.WF n) (k : Nat) (hk : k < n) : (m.delete k).get k = none := by
  have hk' : k < m.index.length := by rw [hw.len]; exact hk
  unfold IndexMap.get IndexMap.delete
  rw [slot_set_self m k _ _ hk']

theorem get_delete_other (m : IndexMap) (k k' : Nat) (h : k' ≠ k) : (m.delete k).get k' = m.get k' := by
  unfold IndexMap.get IndexMap.delete
  rw [slot_set_other m k k' _ _ h]

theorem get_update_self (m : IndexMap) (n : Nat) (hw : m.WF n) (k : Nat) (v old : Bytes) (h : m.get k = some old) : (m.update k v).get k = some v := by
  unfold IndexMap.get at h
  cases hs : m.slot k with
  | none => simp [hs] at h
  | some p =>
    have hp := slot_lt m n hw k p hs
    unfold IndexMap.update IndexMap.get
    simp only [hs]
    have : (⟨m.index, m.values.set p (k, v)⟩ : IndexMap).slot k = some p := by rw [← hs]; rfl
    simp [this, hp]

theorem get_update_other (m : IndexMap) (n : Nat) (hw : m.WF n) (k k' : Nat) (v : Bytes) (h : k' ≠ k) : (m.update k v).get k' = m.get k' := by
  unfold IndexMap.update
  cases hs : m.slot k with
  | none => rfl
  | some p =>
    simp only
    unfold IndexMap.get
    have hsl : (⟨m.index, m.values.set p (k, v)⟩ : IndexMap).slot k' = m.slot k' := rfl
    rw [hsl]
    cases hs' : m.slot k' with
    | none => rfl
    | some p' =>
      have hne : p ≠ p' := by
        intro he; subst he
        obtain ⟨v1, h1⟩ := hw.slot_ok k p hs
        obtain ⟨v2, h2⟩ := hw.slot_ok k' p hs'
        rw [h1] at h2; simp at h2; exact h h2.1.symm
      simp [List.getElem?_set_ne hne]

/-- the headers as the map they stand for: what each operation means -/
def absStd (g : Nat → Option Bytes) : HOp → Nat → Option Bytes
  | .insert k v, k' => if k' = k then some v else g k'
  | .remove k, k' => if k' = k then none else g k'
  | .append k v, k' => if k' = k then some (match g k with | none => v | some old => old ++ joinSep ++ v) else g k'
  | _, k' => g k'

/-- **Latest value, nothing removed or stale**: after any operation the standard-header store reads as the abstract map updated by that
operation -/
theorem std_refines (nameLen : Nat → Nat) (n : Nat) (h : Headers) (hi : h.Inv nameLen n) (op : HOp) (hk : op.keyOk n) (k' : Nat) :
    (h.apply nameLen op).std.get k' = absStd h.std.get op k' := by
  have hw := hi.wf
  cases op with
  | insert k v =>
    simp only [HOp.keyOk] at hk
    simp only [Headers.apply, absStd]
    cases hg : h.std.get k with
    | none =>
      simp only
      by_cases he : k' = k
      · subst he; simp [get_set_self _ n hw _ hk]
      · simp [he, get_set_other _ n hw k k' v he]
    | some old =>
      simp only
      by_cases he : k' = k
      · subst he; simp [get_update_self _ n hw _ v old hg]
      · simp [he, get_update_other _ n hw k k' v he]
  | remove k =>
    simp only [HOp.keyOk] at hk
    simp only [Headers.apply, absStd]
    cases hg : h.std.get k with
    | none =>
      simp only
      by_cases he : k' = k
      · subst he; simp [get_delete_self _ n hw _ hk]
      · simp [he, get_delete_other _ k k' he]
    | some old =>
      simp only
      by_cases he : k' = k
      · subst he; simp [get_delete_self _ n hw _ hk]
      · simp [he, get_delete_other _ k k' he]
  | append k v =>
    simp only [HOp.keyOk] at hk
    simp only [Headers.apply, absStd]
    cases hg : h.std.get k with
    | none =>
      simp only
      by_cases he : k' = k
      · subst he; simp [get_set_self _ n hw _ hk]
      · simp [he, get_set_other _ n hw k k' v he]
    | some old =>
      simp only
      by_cases he : k' = k
      · subst he; simp [get_update_self _ n hw _ _ old hg]
      · simp [he, get_update_other _ n hw k k' _ he]
  | insertX nm v => simp only [Headers.apply, absStd]; split <;> rfl
  | removeX nm => simp only [Headers.apply, absStd]; split <;> rfl
  | appendX nm v => simp only [Headers.apply, absStd]; split <;> rfl
  | cookie l => rfl

/-! every live header exactly once, with the value the store reads -/
theorem mem_liveFrom (m : IndexMap) : ∀ (vs : List (Nat × Bytes)) (q : Nat) (kv : Nat × Bytes),
    kv ∈ liveFrom m q vs ↔ ∃ i, vs[i]? = some kv ∧ m.slot kv.1 = some (q + i) := by
  intro vs
  induction vs with
  | nil => intro q kv; simp [liveFrom]
  | cons x vs ih =>
    intro q kv
    simp only [liveFrom, List.mem_append]
    constructor
    · rintro (h | h)
      · by_cases hc : m.slot x.1 = some q
        · simp only [hc, if_true, List.mem_singleton] at h
          subst h
          exact ⟨0, by simp, by simpa using hc⟩
        · simp [hc] at h
      · obtain ⟨i, hi, hs⟩ := (ih (q + 1) kv).mp h
        exact ⟨i + 1, by simpa using hi, by rw [hs]; congr 1; omega⟩
    · rintro ⟨i, hi, hs⟩
      cases i with
      | zero =>
        simp only [List.getElem?_cons_zero, Option.some.injEq] at hi
        subst hi
        left; simp only [Nat.add_zero] at hs; simp [hs]
      | succ j =>
        right
        exact (ih (q + 1) kv).mpr ⟨j, by simpa using hi, by rw [hs]; congr 1; omega⟩

/-- **a header line is written for (k, v) iff the store reads v under k** -/
theorem live_iff_get (m : IndexMap) (n : Nat) (hw : m.WF n) (k : Nat) (v : Bytes) : (k, v) ∈ m.live ↔ m.get k = some v := by
  unfold IndexMap.live
  rw [mem_liveFrom]
  simp only [Nat.zero_add]
  constructor
  · rintro ⟨i, hi, hs⟩
    unfold IndexMap.get
    simp [hs, hi]
  · intro h
    unfold IndexMap.get at h
    cases hs : m.slot k with
    | none => simp [hs] at h
    | some p =>
      obtain ⟨v', hv'⟩ := hw.slot_ok k p hs
      simp only [hs, hv', Option.map_some, Option.some.injEq] at h
      subst h
      exact ⟨p, hv', rfl⟩

/-- **and at most one line per header name** -/
theorem live_keys_nodup (m : IndexMap) : (m.live.map (·.1)).Nodup := by
  unfold IndexMap.live
  have : ∀ (vs : List (Nat × Bytes)) (q : Nat), ((liveFrom m q vs).map (·.1)).Nodup := by
    intro vs
    induction vs with
    | nil => intro q; simp [liveFrom]
    | cons x vs ih =>
      intro q
      simp only [liveFrom]
      by_cases hc : m.slot x.1 = some q
      · simp only [hc, if_true, List.singleton_append, List.map_cons, List.nodup_cons]
        refine ⟨?_, ih (q + 1)⟩
        intro hmem
        obtain ⟨kv, hkv, hk⟩ := List.mem_map.mp hmem
        obtain ⟨i, _, hs⟩ := (mem_liveFrom m vs (q + 1) kv).mp hkv
        rw [hk, hc] at hs
        simp at hs; omega
      · simp only [hc, if_false, List.nil_append]
        exact ih (q + 1)
  exact this m.values 0

end Ohkami

namespace Ohkami.Response
open Ohkami

/-- the operation does not set, append to or remove Content-Length by hand (the body setters manage it) -/
def ROp.leavesCL (c : Cfg) : ROp → Prop
  | .h (.insert k _) | .h (.remove k) | .h (.append k _) => k ≠ c.kCL
  | .x op => stdIdx c op.name ≠ some c.kCL
  | _ => True

/-- the framing invariant: Content-Length says what the body is -/
def Fr (c : Cfg) (r : Resp) : Prop :=
  match r.body with
  | some b => r.headers.std.get c.kCL = some (dec b.length)
  | none => r.headers.std.get c.kCL = some zero ∨ r.headers.std.get c.kCL = none

theorem get_hop (c : Cfg) (r : Resp) (hi : RInv c r) (op : HOp) (hk : op.keyOk c.n) (k' : Nat) :
    (hop c r op).headers.std.get k' = absStd r.headers.std.get op k' := std_refines c.nameLen c.n r.headers hi op hk k'

theorem Fr_new (c : Cfg) (ok : c.OK) (status : Nat) (date : Bytes) : Fr c (new c status date) := by
  unfold Fr new
  have h1 : RInv c (hop c ⟨status, Headers.empty c.n, none⟩ (.insert c.kDate date)) := RInv_hop c _ _ (Inv_empty _ _) ok.date
  have : (hop c (hop c ⟨status, Headers.empty c.n, none⟩ (.insert c.kDate date)) (.insert c.kCL zero)).body = none := rfl
  rw [this]
  left
  rw [get_hop c _ h1 (.insert c.kCL zero) ok.cl]
  simp [absStd]

theorem Fr_applyOp (c : Cfg) (ok : c.OK) (r : Resp) (op : ROp) (hi : RInv c r) (hf : Fr c r) (hk : op.keyOk c.n) (hl : op.leavesCL c) :
    Fr c (applyOp c r op) := by
  cases op with
  | h hop' =>
    have hb : (applyOp c r (.h hop')).body = r.body := rfl
    have hg : (applyOp c r (.h hop')).headers.std.get c.kCL = r.headers.std.get c.kCL := by
      simp only [applyOp]
      rw [get_hop c r hi hop' hk]
      cases hop' <;> simp_all [absStd, ROp.leavesCL, Ne.symm]
    unfold Fr at hf ⊢
    rw [hb, hg]; exact hf
  | x xop =>
    have hb : (applyOp c r (.x xop)).body = r.body := rfl
    have hg : (applyOp c r (.x xop)).headers.std.get c.kCL = r.headers.std.get c.kCL := by
      simp only [applyOp]
      rw [get_hop c r hi _ (resolveX_keyOk c r.headers xop)]
      have hl' : stdIdx c xop.name ≠ some c.kCL := hl
      cases xop <;> simp only [resolveX, XOp.name] at hl' ⊢ <;> split <;> simp_all [absStd, Ne.symm]
    unfold Fr at hf ⊢
    rw [hb, hg]; exact hf
  | payload ct b =>
    unfold Fr applyOp setPayload
    simp only
    have h1 : RInv c (hop c r (.insert c.kCT ct)) := RInv_hop c _ _ hi ok.ct
    rw [get_hop c _ h1 (.insert c.kCL (dec b.length)) ok.cl]
    simp [absStd]
  | drop =>
    unfold Fr applyOp dropContent
    simp only
    have h0 : RInv c { r with body := none } := hi
    have h1 : RInv c (hop c { r with body := none } (.remove c.kCT)) := RInv_hop c _ _ h0 ok.ct
    have hb : (hop c (hop c { r with body := none } (.remove c.kCT)) (.remove c.kCL)).body = none := rfl
    rw [hb]
    right
    rw [get_hop c _ h1 (.remove c.kCL) ok.cl]
    simp [absStd]

theorem status_applyOp (c : Cfg) (r : Resp) (op : ROp) : (applyOp c r op).status = r.status := by
  cases op <;> rfl

theorem fold_invs (c : Cfg) (ok : c.OK) (ops : List ROp) (r : Resp) (hi : RInv c r) (hf : Fr c r)
    (hk : ∀ op ∈ ops, op.keyOk c.n) (hl : ∀ op ∈ ops, op.leavesCL c) :
    RInv c (ops.foldl (applyOp c) r) ∧ Fr c (ops.foldl (applyOp c) r) ∧ (ops.foldl (applyOp c) r).status = r.status := by
  induction ops generalizing r with
  | nil => exact ⟨hi, hf, rfl⟩
  | cons op ops ih =>
    simp only [List.foldl_cons]
    have hk0 := hk op (List.mem_cons_self ..)
    have hl0 := hl op (List.mem_cons_self ..)
    have := ih (applyOp c r op) (RInv_applyOp c ok r op hi hk0) (Fr_applyOp c ok r op hi hf hk0 hl0)
      (fun o ho => hk o (List.mem_cons_of_mem _ ho)) (fun o ho => hl o (List.mem_cons_of_mem _ ho))
    exact ⟨this.1, this.2.1, by rw [this.2.2, status_applyOp]⟩

/-- **Framing.**  Whatever sequence of public operations built the response (headers set, appended, removed and re-set; bodies set,
replaced, dropped — Content-Length itself left to the body setters): a 204 goes out with no body and no Content-Length; any other
response with a body declares exactly the number of body bytes; one without a body declares `Content-Length: 0` unless its status
(1xx, 304) forbids a body anyway. -/
theorem framing (c : Cfg) (ok : c.OK) (status : Nat) (date : Bytes) (ops : List ROp)
    (hk : ∀ op ∈ ops, op.keyOk c.n) (hl : ∀ op ∈ ops, op.leavesCL c) :
    let r := build c status date ops
    r.status = status ∧
    (status = 204 → r.body = none ∧ r.headers.std.get c.kCL = none) ∧
    (status ≠ 204 → ∀ b, r.body = some b → r.headers.std.get c.kCL = some (dec b.length)) ∧
    (status ≠ 204 → r.body = none → mayHaveNoLength status = false → r.headers.std.get c.kCL = some zero) := by
  intro r
  obtain ⟨hi, hf, hs⟩ := fold_invs c ok ops (new c status date) (RInv_new c ok status date) (Fr_new c ok status date) hk hl
  have hs' : (ops.foldl (applyOp c) (new c status date)).status = status := by rw [hs]; rfl
  generalize hr0 : ops.foldl (applyOp c) (new c status date) = r0 at hi hf hs'
  have hr : r = complete c r0 := by show build c status date ops = _; unfold build; rw [hr0]
  rw [hr]
  unfold complete
  by_cases h204 : r0.status = 204
  · have hst : status = 204 := by rw [← hs']; exact h204
    simp only [h204, if_true]
    refine ⟨by split <;> simp [hop, h204, hst], fun _ => ⟨trivial, ?_⟩, fun h => absurd hst h, fun h => absurd hst h⟩
    by_cases hsome : (r0.headers.std.get c.kCL).isSome = true
    · simp only [hsome, if_true]
      rw [get_hop c r0 hi (.remove c.kCL) ok.cl]; simp [absStd]
    · simp only [hsome, Bool.false_eq_true, if_false]
      simpa using hsome
  · have hst : status ≠ 204 := by rw [← hs']; exact h204
    simp only [h204, if_false]
    cases hb : r0.body with
    | some b =>
      simp only
      unfold Fr at hf; rw [hb] at hf
      exact ⟨hs', fun h => absurd h hst, fun _ b' hb' => (by rw [hb] at hb'; cases hb'; exact hf), fun _ h => (by rw [hb] at h; cases h)⟩
    | none =>
      simp only
      unfold Fr at hf; rw [hb] at hf
      by_cases hcond : ((r0.headers.std.get c.kCL).isNone && !mayHaveNoLength r0.status) = true
      · simp only [hcond, if_true]
        refine ⟨hs', fun h => absurd h hst, fun _ b' hb' => (by simp [hop, hb] at hb'), fun _ _ _ => ?_⟩
        rw [get_hop c r0 hi (.insert c.kCL zero) ok.cl]; simp [absStd]
      · simp only [hcond, Bool.false_eq_true, if_false]
        refine ⟨hs', fun h => absurd h hst, fun _ b' hb' => (by rw [hb] at hb'; cases hb'), fun _ _ hm => ?_⟩
        rw [hs'] at hcond
        simp only [hm, Bool.not_false, Bool.and_true, Option.isNone_iff_eq_none] at hcond
        rcases hf with h | h
        · exact h
        · exact absurd h hcond

end Ohkami.Response
