import OhkamiModel.M.RouterFull
import OhkamiModel.Http
import OhkamiModel.GenMime
/-! C19 model: `Route::Dir` (ohkami/src/ohkami/routing.rs): from the list of regular files found under the directory
(relative path segments, content) to the static GET routes that are registered, or a start-up refusal.
The file-system walk itself (read_dir, canonicalize, symlinks) is an input, not modelled. -/
namespace Ohkami.Dir
open Ohkami Ohkami.Fangs

def DOT : UInt8 := 46
def ascii (s : String) : Bytes := s.toList.map (·.toNat.toUInt8)

/-- `rsplit_once('.')`: the part after the last dot -/
def extension (name : Bytes) : Option Bytes :=
  match name.reverse.idxOf? DOT with
  | none => none
  | some i => some ((name.reverse.take i).reverse)

def mimeOf (ext : Bytes) : Option Bytes :=
  (Gen.mimeTable.find? fun p => ascii p.1 == ext).map fun p => ascii p.2

def isAlnum (b : UInt8) : Bool := (48 ≤ b && b ≤ 57) || (65 ≤ b && b ≤ 90) || (97 ≤ b && b ≤ 122)

/-- `RouteSegment::new` for a static segment: first and last byte alphanumeric, `.` `-` `_` allowed inside -/
def validSegment (s : Bytes) : Bool :=
  match s with
  | [] => false
  | b :: _ => isAlnum b && (s.getLast?.map isAlnum).getD false && s.all fun c => isAlnum c || c == 46 || c == 45 || c == 95

def stripSuffix (suffix s : Bytes) : Option Bytes :=
  if suffix.length ≤ s.length && s.drop (s.length - suffix.length) == suffix then some (s.take (s.length - suffix.length)) else none

/-- the `omit_extensions` step: the first configured extension that the last segment ends with is cut off -/
def omitExt (omits : List Bytes) (path : List Bytes) : List Bytes :=
  match path.getLast? with
  | none => path
  | some last =>
    match omits.findSome? fun ext => stripSuffix (DOT :: ext) last with
    | some stem => path.dropLast ++ [stem]
    | none => path

inductive Startup (α : Type) where
  | ok (a : α)
  | refused (why : String)
deriving Repr

structure FileEntry where
  path : List Bytes
  content : Bytes

/-- the routes one file is registered at (as segment lists under the mount), with its mime -/
def fileRoutes (omits : List Bytes) (f : FileEntry) : Startup (List (List Bytes) × Bytes) :=
  match f.path.getLast? with
  | none => .refused "empty file path"
  | some name =>
    if f.path.any (fun s => s.head? == some 58) then .refused "name starting with ':'" else
    match extension name with
    | none => .refused "no extension"
    | some ext =>
      match mimeOf ext with
      | none => .refused "unknown extension"
      | some mime =>
        if (ascii "text/").isPrefixOf mime && !Http.validUtf8 f.content then .refused "non UTF-8 text file" else
        let isIndex := name == ascii "index.html"
        let first := if isIndex && !omits.contains (ascii "html") then [f.path] else []
        -- an extension is omitted from file names only: what is left of an index.html's path is its directory (fix: the directory's name is kept)
        .ok (first ++ [if isIndex then f.path.dropLast else omitExt omits f.path], mime)

/-- all registrations, in the order of the file list; a segment outside the route alphabet refuses the start-up -/
def derive (mount : List Bytes) (omits : List Bytes) : List FileEntry → Nat → Startup (List (Route × Nat))
  | [], _ => .ok []
  | f :: rest, i =>
    match fileRoutes omits f with
    | .refused w => .refused w
    | .ok (paths, _) =>
      if paths.any (fun p => p.any fun s => !validSegment s) then .refused "invalid route segment" else
      match derive mount omits rest (i + 1) with
      | .refused w => .refused w
      | .ok more => .ok (paths.map (fun p => ((mount ++ p).map Seg.static, i)) ++ more)

/-- registering the derived routes as GET handlers of one application (a duplicate route refuses the start-up) -/
def app (routes : List (Route × Nat)) : App := .mk 0 false routes []

structure Answer where
  status : Nat
  ctype : Option Bytes
  body : Bytes
deriving Repr

/-- GET of a path against the mounted directory -/
def get (mount : List Bytes) (omits : List Bytes) (files : List FileEntry) (path : Bytes) : Startup Answer :=
  match derive mount omits files 0 with
  | .refused w => .refused w
  | .ok routes =>
    match build (app routes) with
    | none => .refused "two files at one route"
    | some t =>
      let segs := Ohkami.segments (Ohkami.normalize path)
      let fuel := segs.length + 40
      match (searchP fuel (finalize true fuel t false) segs []).2.1 with
      | none => .ok ⟨404, none, []⟩
      | some i =>
        match files[i]? with
        | none => .ok ⟨404, none, []⟩
        | some f =>
          let mime := match fileRoutes omits f with | .ok (_, m) => some m | _ => none
          .ok ⟨200, mime, f.content⟩

end Ohkami.Dir
