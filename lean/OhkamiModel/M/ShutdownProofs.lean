import OhkamiModel.M.Shutdown
namespace Ohkami.Shutdown2

theorem lost_wakeup_in_old_code : (reach false true 24 [init]).any (lost false true) = true := by decide +kernel
theorem no_lost_in_enumeration : (reach true true 24 [init]).all (fun s => !lost true true s) = true := by decide +kernel
theorem reach_closed_fixed : closed true true (reach true true 24 [init]) = true := by decide +kernel
theorem init_in : (reach true true 24 [init]).contains init = true := by decide +kernel

/-- every state reachable under *any* interleaving of handler, poller and reactor steps and arriving connections is in the enumerated set -/
theorem reachable_in (s : St) (h : Reachable true true s) : (reach true true 24 [init]).contains s = true := by
  induction h with
  | init => exact init_in
  | step s s' w _ hst ih =>
    have hc := reach_closed_fixed
    unfold closed at hc
    rw [List.all_eq_true] at hc
    have hs := hc s (by simpa using ih)
    rw [List.all_eq_true] at hs
    cases w with
    | handler => have := hs (step true true s .handler) (by simp); rw [hst] at this; exact this
    | poller => have := hs (step true true s .poller) (by simp); rw [hst] at this; exact this
    | reactor => have := hs (step true true s .reactor) (by simp); rw [hst] at this; exact this
    | arrive => have := hs (step true true s .arrive) (by simp); rw [hst] at this; exact this

theorem no_lost_wakeup (s : St) (h : Reachable true true s) : lost true true s = false := by
  have hin := reachable_in s h
  have hall := no_lost_in_enumeration
  rw [List.all_eq_true] at hall
  have := hall s (by simpa using hin)
  simpa using this

/-- under load: once the handler has run, the loop returns within three of its own steps whatever arrives meanwhile -/
theorem returns_under_load_enum : (reach true true 24 [init]).all (fun s =>
    s.hpc != .hDone || (patterns 3).all fun p => (runLoad true true s p).ppc == .returnedNone) = true := by decide +kernel

theorem returns_under_load (s : St) (h : Reachable true true s) (hd : s.hpc = .hDone) (p : List Bool) (hp : p ∈ patterns 3) :
    (runLoad true true s p).ppc = .returnedNone := by
  have hin := reachable_in s h
  have hall := returns_under_load_enum
  rw [List.all_eq_true] at hall
  have := hall s (by simpa using hin)
  simp only [hd, bne_self_eq_false, Bool.false_or, List.all_eq_true] at this
  simpa using this p hp

theorem mem_patterns : ∀ (n : Nat) (p : List Bool), p.length = n → p ∈ patterns n
  | 0, [], _ => by simp [patterns]
  | n + 1, b :: p, h => by
    simp only [patterns, List.mem_flatMap]
    refine ⟨p, mem_patterns n p (by simpa using h), ?_⟩
    cases b <;> simp

/-- the code as it was (the flag is looked at only when `accept()` is `Pending`): with a connection ready at every poll the loop goes on
    accepting for ever although the interrupt has been delivered completely -/
theorem keeps_accepting_in_old_code :
    let s := ((step true false init .handler).bind fun s => (step true false s .handler).bind fun s => step true false s .handler).getD init
    s.hpc = .hDone ∧ (runLoad true false s (List.replicate 64 true)).ppc ≠ .returnedNone := by decide +kernel

/-! ### WaitGroup: the counter is the number of live tokens, `poll` is Ready exactly at zero -/

/-- a history in which no token is dropped before it was created -/
def wvalid : Nat → List WOp → Prop
  | _, [] => True
  | c, .add :: ops => wvalid (c + 1) ops
  | c, .done :: ops => 0 < c ∧ wvalid (c - 1) ops
  | c, .poll :: ops => wvalid c ops

def live : Nat → List WOp → Nat
  | c, [] => c
  | c, .add :: ops => live (c + 1) ops
  | c, .done :: ops => live (c - 1) ops
  | c, .poll :: ops => live c ops

theorem done_exact (c : Nat) (h0 : 0 < c) (hc : c < 2 ^ 64) : (c + 2 ^ 64 - 1) % 2 ^ 64 = c - 1 := by
  have : c + 2 ^ 64 - 1 = (c - 1) + 2 ^ 64 := by omega
  rw [this, Nat.add_mod_right, Nat.mod_eq_of_lt (by omega)]

/-- the counter never wraps in a valid history that stays below 2^64 tokens, and equals the number of live tokens -/
theorem wcount_live : ∀ (ops : List WOp) (c : Nat), wvalid c ops → c + ops.length < 2 ^ 64 → wcount c ops = live c ops := by
  intro ops
  induction ops with
  | nil => intros; rfl
  | cons op ops ih =>
    intro c hv hb
    cases op with
    | add => simp only [wcount, wstep, live]; exact ih _ hv (by simp at hb; omega)
    | done =>
      obtain ⟨h0, hv'⟩ := hv
      simp only [wcount, wstep, live]
      rw [done_exact c h0 (by simp at hb; omega)]
      exact ih _ hv' (by simp at hb; omega)
    | poll => simp only [wcount, wstep, live]; exact ih _ hv (by simp at hb; omega)

/-- what `wg.await` observes after a history: Ready iff every token that was added has been dropped -/
theorem poll_ready_iff (ops : List WOp) (c : Nat) (hv : wvalid c ops) (hb : c + ops.length < 2 ^ 64) :
    (wstep (wcount c ops) .poll).2 = some (live c ops == 0) := by
  rw [wcount_live ops c hv hb]; rfl

/-- the answers a sequence of polls *should* give: Ready exactly when no session token is alive at that moment -/
def livePolls : Nat → List WOp → List Bool
  | _, [] => []
  | c, .add :: ops => livePolls (c + 1) ops
  | c, .done :: ops => livePolls (c - 1) ops
  | c, .poll :: ops => (c == 0) :: livePolls c ops

/-- **`howl` waits exactly for the in-flight sessions**: in every valid history (any number of sessions, any completion
order, polls anywhere), each poll of the wait group answers Ready iff no session is alive at that moment — never while
one is still being served, and always once the last one has finished. -/
theorem wrun_exact : ∀ (ops : List WOp) (c : Nat), wvalid c ops → c + ops.length < 2 ^ 64 → wrun c ops = livePolls c ops := by
  intro ops
  induction ops with
  | nil => intros; rfl
  | cons op ops ih =>
    intro c hv hb
    cases op with
    | add => simp only [wrun, wstep, livePolls]; exact ih _ hv (by simp at hb; omega)
    | done =>
      obtain ⟨h0, hv'⟩ := hv
      simp only [wrun, wstep, livePolls]
      rw [done_exact c h0 (by simp at hb; omega)]
      exact ih _ hv' (by simp at hb; omega)
    | poll => simp only [wrun, wstep, livePolls]; rw [ih _ hv (by simp at hb; omega)]

end Ohkami.Shutdown2
