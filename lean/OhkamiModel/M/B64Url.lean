import OhkamiModel.P.B64Main
/-! base64url without padding (`URL_SAFE_NO_PAD`), by translation to and from the padded standard alphabet. -/
namespace Ohkami.B64Url
open Ohkami.B64

def MINUS : UInt8 := 45
def UNDER : UInt8 := 95
def PLUS : UInt8 := 43
def SLASH : UInt8 := 47

def toStd (c : UInt8) : UInt8 := if c = MINUS then PLUS else if c = UNDER then SLASH else c
def toUrl (c : UInt8) : UInt8 := if c = PLUS then MINUS else if c = SLASH then UNDER else c

/-- canonical decode: url alphabet only, no padding character, length not 1 mod 4, trailing bits zero -/
def decode (s : Bytes) : Option Bytes :=
  if s.any (fun c => c = PLUS || c = SLASH || c = pad) then none
  else if s.length % 4 = 1 then none
  else B64.decode (s.map toStd ++ List.replicate ((4 - s.length % 4) % 4) pad)

def encode (bs : Bytes) : Bytes := ((B64.encode bs).filter (· != pad)).map toUrl

example : encode [0xfb, 0xff] = [45, 95, 56] ∧ decode [45, 95, 56] = some [0xfb, 0xff] := by decide
example : decode [45, 95, 57] = none := by decide        -- non-canonical trailing bits
example : decode [45, 95, 56, 61] = none := by decide    -- padding is refused
example : decode [65] = none := by decide

end Ohkami.B64Url
