/-! # C15 — the generated OpenAPI document

Model of `Router::gen_openapi_doc` (ohkami/src/router/final.rs), `Operation::assign_path_param_name` / `inbound` / `security`
(ohkami_openapi/src/paths.rs), the per-signature operation assembly of `IntoHandler` (fang/handler/into_handler.rs) and
`Fangs::openapi_map_operation` through every enclosing fang list (router/base.rs), over an application tree.

What is modelled, not verified here: the lookup of a route's node through the compressed routing tree (`search_target` on the
route literal) — the document generator is modelled as reading the operation registered for that route and method; C01's theorems
and the correspondence check (every generated application, real document against this model) cover it.  Schemas are opaque
(`SchemaId`), their validity is checked on the real document. -/

namespace Ohkami.OpenApi

abbrev Str := List Char

/-- a segment of a route literal: `users` or `:id` -/
inductive Seg | lit (s : Str) | param (name : Str)
deriving DecidableEq, Repr

inductive Method | GET | PUT | POST | PATCH | DELETE
deriving DecidableEq, Repr

inductive Fang | plain | jwt | basic | key (scheme : Str) | tag (t : Str)      -- `key`: a fang documenting an API-key scheme of that name
deriving DecidableEq, Repr

def Fang.isAuth : Fang → Bool
  | .jwt | .basic | .key _ => true
  | _ => false

def Fang.scheme : Fang → Option Str
  | .jwt => some "jwtAuth".toList
  | .basic => some "basicAuth".toList
  | .key n => some n
  | _ => none

inductive PKind | path | query
deriving DecidableEq, Repr

/-- a parameter of an operation; `ty` is the schema's type name -/
structure Param where
  kind     : PKind
  name     : Str
  ty       : Str
  required : Bool
deriving DecidableEq, Repr

/-- what a handler signature contributes: the operation `IntoHandler::into_handler` builds before any name is known -/
structure Sig where
  pathTys   : List Str                 -- one unnamed path parameter per FromParam item, in order
  query     : List Param               -- Query<T>: the properties of T's schema
  body      : Option Str               -- media type of the body extractor
  responses : List Nat                 -- statuses of the return type
deriving Repr

structure Operation where
  parameters : List Param
  body       : Option Str
  security   : List Str                -- one requirement per authentication fang, innermost first
  tags       : List Str
  responses  : List Nat
deriving Repr

/-- `Operation::with(Body::openapi_responses()).param(P1::openapi_param())...inbound(Item::openapi_inbound())` -/
def Sig.operation (s : Sig) : Operation :=
  { parameters := s.pathTys.map (fun t => ⟨.path, [], t, true⟩) ++ s.query, body := s.body, security := [], tags := [], responses := s.responses }

/-- `Fang::openapi_map_operation` of the four fang kinds -/
def Fang.mapOperation (f : Fang) (op : Operation) : Operation :=
  match f with
  | .plain => op
  | .jwt => { op with security := op.security ++ ["jwtAuth".toList] }
  | .basic => { op with security := op.security ++ ["basicAuth".toList] }
  | .key n => { op with security := op.security ++ [n] }
  | .tag t => { op with tags := op.tags ++ [t] }

/-- `Fangs::into_proc_with`: from the innermost fang outwards -/
def mapThrough (innermostFirst : List Fang) (op : Operation) : Operation := innermostFirst.foldl (fun o f => f.mapOperation o) op

/-- `Operation::assign_path_param_name`: the first path parameter without a name takes it; if there is none a string parameter is added -/
def assignIn : List Param → Str → Option (List Param)
  | [], _ => none
  | p :: ps, n =>
    if p.kind = .path ∧ p.name = [] then some ({ p with name := n } :: ps)
    else (assignIn ps n).map (p :: ·)

def assign (ps : List Param) (n : Str) : List Param :=
  match assignIn ps n with
  | some ps' => ps'
  | none => ps ++ [⟨.path, n, "string".toList, true⟩]

def assignAll (ps : List Param) (names : List Str) : List Param := names.foldl assign ps

/-- the `{param}` conversion of `gen_openapi_doc` -/
def Seg.template : Seg → Str
  | .lit s => s
  | .param n => ['{'] ++ n ++ ['}']

def template (route : List Seg) : Str :=
  match route with
  | [] => ['/']
  | _ => (route.map fun s => '/' :: s.template).flatten

/-- a segment text that cannot be confused: no `/` inside, a literal is not empty and does not start with `{` -/
def Seg.clean : Seg → Prop
  | .lit s => '/' ∉ s ∧ s.head? ≠ some '{' ∧ s ≠ []
  | .param n => '/' ∉ n ∧ '}' ∉ n

def paramNames (route : List Seg) : List Str := route.filterMap fun | .param n => some n | .lit _ => none

/-! ## applications -/

structure RouteItem where
  route   : List Seg
  methods : List (Method × Sig)
  «local» : List Fang                  -- as written: outermost first

inductive App
  | mk (fangs : List Fang) (routes : List RouteItem) (mounts : List (List Seg × App))

/-- a registered handler with everything that guards it: route from the root, method, signature, fangs innermost first -/
structure Flat where
  route  : List Seg
  method : Method
  sig    : Sig
  chain  : List Fang

/-- segments of two route patterns that share a node of the router: equal literals, or params (whatever their names) -/
def Seg.same : Seg → Seg → Bool
  | .lit a, .lit b => a == b
  | .param _, .param _ => true
  | _, _ => false

/-- the route lies under the mount prefix, segment by segment -/
def covers (pre route : List Seg) : Bool := pre.length ≤ route.length && (pre.zip route).all fun ab => ab.1.same ab.2

-- the fangs of the applications mounted below whose composed prefix covers the route, innermost first: a route lies in the scope of every application
--  whose mount prefix it is under, whoever registered it — the fangs sit on the mount node and guard the whole subtree (C04)
mutual
def coveringApp : App → List Seg → List Seg → List Fang
  | .mk fangs _ mounts, pre, route => if covers pre route then coveringMounts mounts pre route ++ fangs.reverse else []
def coveringMounts : List (List Seg × App) → List Seg → List Seg → List Fang
  | [], _, _ => []
  | (p, a) :: rest, pre, route => coveringMounts rest pre route ++ coveringApp a (pre ++ p) route
end

mutual
/-- `outer`: the fangs of the enclosing applications, innermost application's first (each list as written reversed = innermost first) -/
def flatten : App → List Seg → List Fang → List Flat
  | .mk fangs routes mounts, pre, outer =>
    let mine := fangs.reverse ++ outer
    (routes.flatMap fun r => r.methods.map fun ms => ⟨pre ++ r.route, ms.1, ms.2, r.local.reverse ++ coveringMounts mounts pre (pre ++ r.route) ++ mine⟩) ++ flattenMounts mounts pre mine
def flattenMounts : List (List Seg × App) → List Seg → List Fang → List Flat
  | [], _, _ => []
  | (p, a) :: rest, pre, outer => flatten a (pre ++ p) outer ++ flattenMounts rest pre outer
end

/-- the operation the document shows for a registered handler -/
def Flat.operation (f : Flat) : Operation :=
  let op := mapThrough f.chain f.sig.operation
  { op with parameters := assignAll op.parameters (paramNames f.route) }

structure Entry where
  path      : Str
  method    : Method
  operation : Operation

def document (a : App) : List Entry := (flatten a [] []).map fun f => ⟨template f.route, f.method, f.operation⟩

def pathParams (op : Operation) : List Param := op.parameters.filter (·.kind = .path)

end Ohkami.OpenApi
