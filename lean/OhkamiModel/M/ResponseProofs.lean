import OhkamiModel.M.Response
/-! C03: the serializer never overruns its buffer — for every status, date and operation history. -/
namespace Ohkami.Response
open Ohkami

theorem length_flatMap_eq_sum_map {α} (g : α → Bytes) (f : α → Nat) (hg : ∀ a, (g a).length = f a) (l : List α) :
    (l.flatMap g).length = (l.map f).sum := by
  induction l with
  | nil => simp
  | cons a l ih => simp [List.flatMap_cons, hg, ih]

theorem renderHeaders_length (c : Cfg) (h : Headers) :
    (renderHeaders c h).length
      = stdLen (fStd c.nameLen) h.std + customLen h.custom + cookieLen h.cookies + crlfLen := by
  unfold renderHeaders
  simp only [List.length_append]
  rw [length_flatMap_eq_sum_map (renderStd c) (fStd c.nameLen)
        (by intro kv; simp [renderStd, fStd, Cfg.nameLen, sep, crlf, sepLen, crlfLen]; omega),
      length_flatMap_eq_sum_map renderX gX
        (by intro nv; simp [renderX, gX, sep, crlf, sepLen, crlfLen]; omega),
      length_flatMap_eq_sum_map renderCookie (fun c => 12 + c.length + crlfLen)
        (by intro l; simp [renderCookie, setCookiePrefix, crlf, crlfLen]; omega)]
  simp [stdLen, sumLive, IndexMap.live, customLen, cookieLen, crlf, crlfLen]

/-- the invariant of B.12, lifted to responses -/
def RInv (c : Cfg) (r : Resp) : Prop := r.headers.Inv c.nameLen c.n

theorem RInv_hop (c : Cfg) (r : Resp) (op : HOp) (hi : RInv c r) (hk : op.keyOk c.n) : RInv c (hop c r op) :=
  Inv_apply c.nameLen c.n r.headers hi op hk

/-- an operation of the alphabet addresses an existing standard header (always true of the typed API) -/
def ROp.keyOk (n : Nat) : ROp → Prop
  | .h op => op.keyOk n
  | _ => True

theorem stdIdx_lt (c : Cfg) (n : Bytes) (k : Nat) (h : stdIdx c n = some k) : k < c.n := by
  unfold stdIdx at h
  have := List.findIdx?_eq_some_iff_getElem.mp h
  obtain ⟨hlt, _⟩ := this
  exact hlt

theorem resolveX_keyOk (c : Cfg) (h : Headers) (op : XOp) : (resolveX c h op).keyOk c.n := by
  cases op <;> simp only [resolveX] <;> split <;> simp only [HOp.keyOk] <;>
    first | trivial | (rename_i k hk; exact stdIdx_lt c _ k hk)

theorem RInv_new (c : Cfg) (ok : c.OK) (status : Nat) (date : Bytes) : RInv c (new c status date) := by
  unfold new
  apply RInv_hop _ _ _ _ (by simpa [HOp.keyOk] using ok.cl)
  apply RInv_hop _ _ _ _ (by simpa [HOp.keyOk] using ok.date)
  exact Inv_empty c.nameLen c.n

theorem RInv_applyOp (c : Cfg) (ok : c.OK) (r : Resp) (op : ROp) (hi : RInv c r) (hk : op.keyOk c.n) :
    RInv c (applyOp c r op) := by
  cases op with
  | h op => exact RInv_hop c r op hi hk
  | x op => exact RInv_hop c r _ hi (resolveX_keyOk c r.headers op)
  | payload ct b =>
    simp only [applyOp, setPayload]
    show RInv c (hop c (hop c r (.insert c.kCT ct)) (.insert c.kCL (dec b.length)))
    apply RInv_hop _ _ _ _ (by simpa [HOp.keyOk] using ok.cl)
    exact RInv_hop _ _ _ hi (by simpa [HOp.keyOk] using ok.ct)
  | drop =>
    simp only [applyOp, dropContent]
    apply RInv_hop _ _ _ _ (by simpa [HOp.keyOk] using ok.cl)
    exact RInv_hop _ _ _ hi (by simpa [HOp.keyOk] using ok.ct)

theorem RInv_complete (c : Cfg) (ok : c.OK) (r : Resp) (hi : RInv c r) : RInv c (complete c r) := by
  unfold complete
  split
  · show RInv c (if _ then _ else _)
    split
    · exact RInv_hop _ _ _ hi (by simpa [HOp.keyOk] using ok.cl)
    · exact hi
  · split
    · split
      · exact RInv_hop _ _ _ hi (by simpa [HOp.keyOk] using ok.cl)
      · exact hi
    · exact hi

theorem RInv_build (c : Cfg) (ok : c.OK) (status : Nat) (date : Bytes) (ops : List ROp)
    (hk : ∀ op ∈ ops, op.keyOk c.n) : RInv c (build c status date ops) := by
  unfold build
  apply RInv_complete c ok
  suffices ∀ r, RInv c r → RInv c (ops.foldl (applyOp c) r) from this _ (RInv_new c ok status date)
  induction ops with
  | nil => intro r hi; exact hi
  | cons op ops ih =>
    intro r hi
    simp only [List.foldl_cons]
    exact ih (fun o ho => hk o (by simp [ho])) _ (RInv_applyOp c ok r op hi (hk op (by simp)))

/-- under the invariant, `send` writes exactly the bytes it reserved -/
theorem render_length_of_RInv (c : Cfg) (r : Resp) (hi : RInv c r) : (render c r).length = declared c r := by
  unfold render declared
  simp only [List.length_append, renderHeaders_length, hi.size_eq]

/-- **C03, buffer part**: for every status, date value and finite sequence of public operations, the bytes
`send` writes are exactly as many as the capacity it reserved — no `push_unchecked!` overruns. -/
theorem send_exact (c : Cfg) (ok : c.OK) (status : Nat) (date : Bytes) (ops : List ROp)
    (hk : ∀ op ∈ ops, op.keyOk c.n) :
    (render c (build c status date ops)).length = declared c (build c status date ops) :=
  render_length_of_RInv c _ (RInv_build c ok status date ops hk)

theorem send_no_overrun (c : Cfg) (ok : c.OK) (status : Nat) (date : Bytes) (ops : List ROp)
    (hk : ∀ op ∈ ops, op.keyOk c.n) : noOverrun c (build c status date ops) :=
  Nat.le_of_eq (send_exact c ok status date ops hk)

end Ohkami.Response
