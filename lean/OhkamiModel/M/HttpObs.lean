import OhkamiModel.Http
import OhkamiModel.P.Percent
/-! C02: what fangs and handlers observe of a parsed request — `Path::str`, `QueryParams::iter`, `Headers::get`
and the typed getters — including `String::from_utf8_lossy`, which the lossy accessors use. -/
namespace Ohkami.Http
open Ohkami

def FFFD : Bytes := [0xEF, 0xBF, 0xBD]

/-- `String::from_utf8_lossy` (core's `Utf8Chunks`): every maximal invalid prefix of a scalar becomes one U+FFFD -/
def lossy : Nat → Bytes → Bytes
  | 0, _ => []
  | _, [] => []
  | fuel + 1, b0 :: rest =>
    if b0 < 0x80 then b0 :: lossy fuel rest
    else if 0xC2 ≤ b0 && b0 ≤ 0xDF then
      match rest with
      | b1 :: r => if cont b1 then b0 :: b1 :: lossy fuel r else FFFD ++ lossy fuel rest
      | [] => FFFD
    else if 0xE0 ≤ b0 && b0 ≤ 0xEF then
      match rest with
      | b1 :: r1 =>
        let ok1 := if b0 = 0xE0 then 0xA0 ≤ b1 && b1 ≤ 0xBF else if b0 = 0xED then 0x80 ≤ b1 && b1 ≤ 0x9F else cont b1
        if !ok1 then FFFD ++ lossy fuel rest else
        match r1 with
        | b2 :: r2 => if cont b2 then b0 :: b1 :: b2 :: lossy fuel r2 else FFFD ++ lossy fuel r1
        | [] => FFFD
      | [] => FFFD
    else if 0xF0 ≤ b0 && b0 ≤ 0xF4 then
      match rest with
      | b1 :: r1 =>
        let ok1 := if b0 = 0xF0 then 0x90 ≤ b1 && b1 ≤ 0xBF else if b0 = 0xF4 then 0x80 ≤ b1 && b1 ≤ 0x8F else cont b1
        if !ok1 then FFFD ++ lossy fuel rest else
        match r1 with
        | b2 :: r2 =>
          if !cont b2 then FFFD ++ lossy fuel r1 else
          match r2 with
          | b3 :: r3 => if cont b3 then b0 :: b1 :: b2 :: b3 :: lossy fuel r3 else FFFD ++ lossy fuel r2
          | [] => FFFD
        | [] => FFFD
      | [] => FFFD
    else FFFD ++ lossy fuel rest

def utf8Lossy (bs : Bytes) : Bytes := lossy (bs.length + 1) bs

def splitOn (sep : UInt8) : Bytes → List Bytes
  | [] => [[]]
  | b :: bs =>
    match splitOn sep bs with
    | [] => [[]]
    | l :: ls => if b = sep then [] :: l :: ls else (b :: l) :: ls

/-- `QueryParams::iter`: parts without `=` or with an empty key are skipped; both sides percent-decoded, lossily -/
def queryPairs (q : Bytes) : List (Bytes × Bytes) :=
  if q.isEmpty then [] else
  (splitOn 38 q).filterMap fun kv =>
    match kv.idxOf? 61 with
    | none => none
    | some 0 => none
    | some n => some (utf8Lossy (Percent.decode (kv.take n)), utf8Lossy (Percent.decode (kv.drop (n + 1))))

/-- `Path::str`: "/" for the empty (normalised) path, otherwise the percent-decoded bytes, lossily if they are not UTF-8 -/
def pathStr (p : Parsed) : Bytes := if p.path.isEmpty then [47] else utf8Lossy (Percent.decode p.path)

/-- `Headers::get(name)`: custom first, then a standard header; the name in any letter case -/
def getHeader (p : Parsed) (name : Bytes) : Option Bytes :=
  match p.custom.find? (sameName ·.1 name) with
  | some nv => some nv.2
  | none =>
    match Gen.reqHeaderLower.findIdx? fun t => t == name.map lower with
    | some k => (p.std.find? (·.1 = k)).map (·.2)
    | none => none

/-- the typed getter of the `k`-th standard header -/
def getStd (p : Parsed) (k : Nat) : Option Bytes := (p.std.find? (·.1 = k)).map (·.2)

example : utf8Lossy [0x61, 0xFF, 0x62] = [0x61, 0xEF, 0xBF, 0xBD, 0x62] := by decide
example : utf8Lossy [0xE3, 0x81] = FFFD := by decide
example : utf8Lossy [0xE3, 0x81, 0x82] = [0xE3, 0x81, 0x82] := by decide
example : utf8Lossy [0xF0, 0x90, 0x41] = FFFD ++ [0x41] := by decide

end Ohkami.Http
