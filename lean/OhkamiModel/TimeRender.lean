import OhkamiModel.TimeMain
/-! C20, rendering: `into_imf_fixdate` writes 29 bytes through unchecked indexing; the model keeps the two ways it
    could go wrong (`get_unchecked` out of the name tables, a write count other than the buffer length) and the
    theorem shows neither happens and the text is the RFC 9110 IMF-fixdate of the fields. -/
namespace Ohkami.Time
open Ohkami.Gen.Time

inductive RenderOut where
  | ok (bs : List UInt8)
  | ub (site : String)
deriving Repr, DecidableEq

-- `fill!(@100> b)`: two decimal digits in `u8` arithmetic (debug builds assert `b < 100`)
def two (n : Nat) : List UInt8 := [(48 + n / 10).toUInt8, (48 + n % 10).toUInt8]

def render (F : Fields) : RenderOut :=
  match SHORT_WEEKDAYS_B[F.wday]?, SHORT_MONTHS_B[F.monthIdx]? with
  | some wd, some mo =>
    let bs := wd ++ [44, 32] ++ (if F.day < 10 then [48, (48 + F.day).toUInt8] else two F.day) ++ [32] ++ mo ++ [32]
      ++ two (F.year / 100) ++ two (F.year % 100) ++ [32] ++ two F.hour ++ [58] ++ two F.min ++ [58] ++ two F.sec
      ++ [32, 71, 77, 84]
    if bs.length = 29 then .ok bs else .ub "buf: write count differs from IMF_FIXDATE_LEN"
  | _, _ => .ub "get_unchecked: name table"

/-! spec: RFC 9110 §5.6.7, written with the library's decimal printer and explicit zero padding -/
-- `w` decimal digits of `n`, most significant first, zero padded (positional notation itself)
def dec (w n : Nat) : List UInt8 := (List.range w).reverse.map fun i => (48 + n / 10 ^ i % 10).toUInt8
def dayName : Nat → List UInt8
  | 0 => [83, 117, 110] | 1 => [77, 111, 110] | 2 => [84, 117, 101] | 3 => [87, 101, 100]
  | 4 => [84, 104, 117] | 5 => [70, 114, 105] | _ => [83, 97, 116]
def monthName : Nat → List UInt8
  | 0 => [74, 97, 110] | 1 => [70, 101, 98] | 2 => [77, 97, 114] | 3 => [65, 112, 114] | 4 => [77, 97, 121]
  | 5 => [74, 117, 110] | 6 => [74, 117, 108] | 7 => [65, 117, 103] | 8 => [83, 101, 112] | 9 => [79, 99, 116]
  | 10 => [78, 111, 118] | _ => [68, 101, 99]
def imfSpec (F : Fields) : List UInt8 :=
  dayName F.wday ++ [44, 32] ++ dec 2 F.day ++ [32] ++ monthName F.monthIdx ++ [32] ++ dec 4 F.year ++ [32]
    ++ dec 2 F.hour ++ [58] ++ dec 2 F.min ++ [58] ++ dec 2 F.sec ++ [32, 71, 77, 84]

theorem two_dec (n : Nat) (h : n < 100) : two n = dec 2 n := by
  have h1 : n / 10 % 10 = n / 10 := by omega
  simp [two, dec, List.range, List.range.loop, h1]
theorem day_dec (n : Nat) (h : n < 10) : [48, (48 + n).toUInt8] = dec 2 n := by
  have h1 : n / 10 % 10 = 0 := by omega
  have h2 : n % 10 = n := by omega
  simp [dec, List.range, List.range.loop, h1, h2]
theorem year_dec (y : Nat) (h : y < 10000) : two (y / 100) ++ two (y % 100) = dec 4 y := by
  have h1 : y / 100 / 10 = y / 1000 % 10 := by omega
  have h2 : y / 100 % 10 = y / 100 % 10 := rfl
  have h3 : y % 100 / 10 = y / 10 % 10 := by omega
  have h4 : y % 100 % 10 = y % 10 := by omega
  simp [two, dec, List.range, List.range.loop, h1, h3, h4]
theorem wd_table : ∀ i : Fin 7, SHORT_WEEKDAYS_B[i.val]? = some (dayName i.val) := by decide
theorem mo_table : ∀ i : Fin 12, SHORT_MONTHS_B[i.val]? = some (monthName i.val) := by decide


theorem dayName_len (i : Nat) : (dayName i).length = 3 := by unfold dayName; split <;> rfl
theorem monthName_len (i : Nat) : (monthName i).length = 3 := by unfold monthName; split <;> rfl
theorem dec_len (w n : Nat) : (dec w n).length = w := by simp [dec]

/-- the renderer writes exactly the 29 bytes of the IMF-fixdate of its fields and touches nothing unchecked,
    whenever the fields are those of a date up to the year 9999 -/
theorem render_exact (F : Fields) (hw : F.wday < 7) (hm : F.monthIdx < 12) (hd : F.day ≤ 31) (hy : F.year ≤ 9999)
    (hh : F.hour < 24) (hmi : F.min < 60) (hs : F.sec < 60) : render F = .ok (imfSpec F) := by
  have e1 := wd_table ⟨F.wday, hw⟩
  have e2 := mo_table ⟨F.monthIdx, hm⟩
  simp only at e1 e2
  have e3 : (if F.day < 10 then [48, (48 + F.day).toUInt8] else two F.day) = dec 2 F.day := by
    split
    · exact day_dec _ (by omega)
    · exact two_dec _ (by omega)
  have e4 := year_dec F.year (by omega)
  have e5 := two_dec F.hour (by omega)
  have e6 := two_dec F.min (by omega)
  have e7 := two_dec F.sec (by omega)
  unfold render
  simp only [e1, e2, e3, e5, e6, e7]
  have e8 : ∀ (a b c : List UInt8), a ++ two (F.year / 100) ++ two (F.year % 100) ++ b = a ++ dec 4 F.year ++ b := by
    intro a b c; rw [← e4]; simp [List.append_assoc]
  rw [if_pos]
  · simp only [imfSpec, ← e4, List.append_assoc]
  · simp [dayName_len, monthName_len, dec_len, two]

/-- **C20, the whole function.** For every timestamp up to 9999-12-31T23:59:59 `imf_fixdate` returns the 29-byte
    IMF-fixdate whose day name, day, month, year and time of day are those of that instant in the proleptic
    Gregorian calendar, and no unchecked access goes out of range. -/
theorem imf_fixdate_exact (t : Nat) (ht : t ≤ 253402300799) :
    let F := fields t
    render F = .ok (imfSpec F)
    ∧ ValidDate F.year (F.monthIdx + 1) F.day
    ∧ dayNumber F.year (F.monthIdx + 1) F.day = t / 86400 + (719163 + 365 + 1)
    ∧ F.wday = (t / 86400 + 4) % 7
    ∧ F.hour = t % 86400 / 3600 ∧ F.min = t % 3600 / 60 ∧ F.sec = t % 60 := by
  intro F
  obtain ⟨hv, hdn, hwd, hy, hh, hmi, hs⟩ := fields_correct t ht
  have hF : F = fields t := rfl
  clear_value F
  subst hF
  refine ⟨?_, hv, hdn, hwd, hh, hmi, hs⟩
  obtain ⟨hm1, hm12, hd1, hdl⟩ := hv
  have hml : monthLen (isLeap (fields t).year) ((fields t).monthIdx + 1) ≤ 31 := by
    unfold monthLen; split <;> (try split) <;> omega
  apply render_exact
  · rw [hwd]; omega
  · omega
  · exact Nat.le_trans hdl hml
  · exact hy
  · rw [hh]; omega
  · rw [hmi]; omega
  · rw [hs]; omega

-- RFC 9110's own example, through the model
example : render (fields 784111777) = .ok "Sun, 06 Nov 1994 08:49:37 GMT".toUTF8.toList := by decide +kernel

end Ohkami.Time
