import OhkamiModel.HttpProofs
/-! C02, "header values (repeated headers joined in order)", "names compare case-insensitively": what a handler finds under a name
    after the header loop is the `", "`-join, in wire order, of the values of exactly the lines whose names equal it up to letter case. -/
namespace Ohkami.Http

theorem sameName_iff (a b : Bytes) : sameName a b = true ↔ a.map lower = b.map lower := by simp [sameName]

theorem sameName_trans {a b c : Bytes} (h1 : sameName a b = true) (h2 : sameName b c = true) : sameName a c = true := by
  rw [sameName_iff] at *; exact h1.trans h2

theorem sameName_symm {a b : Bytes} (h : sameName a b = true) : sameName b a = true := by
  rw [sameName_iff] at *; exact h.symm

theorem sameName_congr {k n : Bytes} (h : sameName k n = true) (a : Bytes) : sameName a k = sameName a n := by
  cases h1 : sameName a k <;> cases h2 : sameName a n <;> try rfl
  · exact absurd (sameName_trans h2 (sameName_symm h)) (by simp [h1])
  · exact absurd (sameName_trans h1 h) (by simp [h2])

/-- what `Headers::get` finds among the names outside the table -/
def look (l : List (Bytes × Bytes)) (n : Bytes) : Option Bytes := (l.find? (sameName ·.1 n)).map (·.2)

/-- one more value under a name: alone, or after `", "` -/
def joined (old : Option Bytes) (v : Bytes) : Bytes := match old with | some o => o ++ joinSep ++ v | none => v

theorem look_congr {k n : Bytes} (h : sameName k n = true) (l : List (Bytes × Bytes)) : look l k = look l n := by
  unfold look
  congr 1
  congr 1
  funext x
  exact sameName_congr h x.1

theorem appendCustom_cons_hit (a b : Bytes) (l : List (Bytes × Bytes)) (k v : Bytes) (h : sameName a k = true) :
    appendCustom ((a, b) :: l) k v = (a, b ++ joinSep ++ v) :: l := by
  simp [appendCustom, List.findIdx?_cons, h]

theorem appendCustom_cons_miss (a b : Bytes) (l : List (Bytes × Bytes)) (k v : Bytes) (h : sameName a k = false) :
    appendCustom ((a, b) :: l) k v = (a, b) :: appendCustom l k v := by
  simp only [appendCustom, List.findIdx?_cons, h]
  cases hf : l.findIdx? (fun x => sameName x.1 k) with
  | none => simp
  | some i => simp

theorem look_appendCustom (l : List (Bytes × Bytes)) (k v n : Bytes) :
    look (appendCustom l k v) n = if sameName k n then some (joined (look l k) v) else look l n := by
  induction l with
  | nil =>
    simp only [appendCustom, look, List.findIdx?_nil, List.nil_append, List.find?_cons, List.find?_nil]
    cases h : sameName k n <;> simp [joined]
  | cons ab l ih =>
    obtain ⟨a, b⟩ := ab
    cases hak : sameName a k with
    | true =>
      rw [appendCustom_cons_hit a b l k v hak]
      cases hkn : sameName k n with
      | true =>
        have han := sameName_trans hak hkn
        simp [look, List.find?_cons, han, hak, joined]
      | false =>
        have han : sameName a n = false := by
          cases h : sameName a n with
          | false => rfl
          | true => exact absurd (sameName_trans (sameName_symm hak) h) (by simp [hkn])
        simp [look, List.find?_cons, han]
    | false =>
      rw [appendCustom_cons_miss a b l k v hak]
      cases han : sameName a n with
      | true =>
        have hkn : sameName k n = false := by
          cases h : sameName k n with
          | false => rfl
          | true => exact absurd (sameName_trans han (sameName_symm h)) (by simp [hak])
        simp [look, List.find?_cons, han, hkn]
      | false =>
        have e1 : look ((a, b) :: appendCustom l k v) n = look (appendCustom l k v) n := by simp [look, List.find?_cons, han]
        have e2 : look ((a, b) :: l) n = look l n := by simp [look, List.find?_cons, han]
        have e3 : look ((a, b) :: l) k = look l k := by simp [look, List.find?_cons, hak]
        rw [e1, e2, e3, ih]

/-- the values, in wire order, of the lines whose name is `n` up to letter case -/
def valuesOf (hs : List (Bytes × Bytes)) (n : Bytes) : List Bytes := (hs.filter (sameName ·.1 n)).map (·.2)

/-- `v1`, then `", " v2`, … after whatever was there -/
def joinOnto (old : Option Bytes) (vs : List Bytes) : Option Bytes := vs.foldl (fun acc v => some (joined acc v)) old

theorem stdIndex_congr {k n : Bytes} (h : sameName k n = true) : stdIndex k = stdIndex n := by
  rw [sameName_iff] at h; simp [stdIndex, h]

/-- the header loop's fold, names outside the table -/
theorem look_fold (hs : List (Bytes × Bytes)) (n : Bytes) (hn : stdIndex n = none) :
    ∀ acc : List (Nat × Bytes) × List (Bytes × Bytes),
      look (hs.foldl stepH acc).2 n = joinOnto (look acc.2 n) (valuesOf hs n) := by
  induction hs with
  | nil => intro acc; simp [valuesOf, joinOnto]
  | cons kv hs ih =>
    intro acc
    obtain ⟨k, v⟩ := kv
    rw [List.foldl_cons, ih]
    cases hkn : sameName k n with
    | true =>
      have hk : stdIndex k = none := by rw [stdIndex_congr hkn]; exact hn
      simp only [stepH, hk, valuesOf, List.filter_cons, hkn, if_true, List.map_cons, joinOnto, List.foldl_cons]
      rw [look_appendCustom, hkn, if_pos rfl, look_congr hkn]
    | false =>
      simp only [valuesOf, List.filter_cons, hkn]
      cases hk : stdIndex k with
      | none => simp only [stepH, hk]; rw [look_appendCustom, hkn]; simp [valuesOf]
      | some i => simp [stepH, hk, valuesOf]

end Ohkami.Http

namespace Ohkami.Http

/-! ### the names of the table -/
def lookStd (l : List (Nat × Bytes)) (i : Nat) : Option Bytes := (l.find? (·.1 = i)).map (·.2)

theorem appendStd_cons_hit (b : Bytes) (l : List (Nat × Bytes)) (k : Nat) (v : Bytes) :
    appendStd ((k, b) :: l) k v = (k, b ++ joinSep ++ v) :: l := by
  simp [appendStd, List.findIdx?_cons]

theorem appendStd_cons_miss (a : Nat) (b : Bytes) (l : List (Nat × Bytes)) (k : Nat) (v : Bytes) (h : a ≠ k) :
    appendStd ((a, b) :: l) k v = (a, b) :: appendStd l k v := by
  simp only [appendStd, List.findIdx?_cons, h, decide_false]
  cases hf : l.findIdx? (fun x => decide (x.1 = k)) with
  | none => simp
  | some i => simp

theorem lookStd_appendStd (l : List (Nat × Bytes)) (k : Nat) (v : Bytes) (i : Nat) :
    lookStd (appendStd l k v) i = if k = i then some (joined (lookStd l k) v) else lookStd l i := by
  induction l with
  | nil =>
    by_cases h : k = i <;> simp [appendStd, lookStd, h, joined]
  | cons ab l ih =>
    obtain ⟨a, b⟩ := ab
    by_cases hak : a = k
    · subst hak
      rw [appendStd_cons_hit]
      by_cases hi : a = i <;> simp [lookStd, List.find?_cons, hi, joined]
    · rw [appendStd_cons_miss a b l k v hak]
      by_cases hai : a = i
      · have hki : ¬ k = i := fun h => hak (hai.trans h.symm)
        simp [lookStd, List.find?_cons, hai, hki]
      · have e1 : lookStd ((a, b) :: appendStd l k v) i = lookStd (appendStd l k v) i := by simp [lookStd, List.find?_cons, hai]
        have e2 : lookStd ((a, b) :: l) i = lookStd l i := by simp [lookStd, List.find?_cons, hai]
        have e3 : lookStd ((a, b) :: l) k = lookStd l k := by simp [lookStd, List.find?_cons, hak]
        rw [e1, e2, e3, ih]

/-- the values, in wire order, of the lines whose name is the `i`-th name of the table, in any letter case -/
def stdValuesOf (hs : List (Bytes × Bytes)) (i : Nat) : List Bytes := (hs.filter (stdIndex ·.1 == some i)).map (·.2)

theorem lookStd_fold (hs : List (Bytes × Bytes)) (i : Nat) :
    ∀ acc : List (Nat × Bytes) × List (Bytes × Bytes),
      lookStd (hs.foldl stepH acc).1 i = joinOnto (lookStd acc.1 i) (stdValuesOf hs i) := by
  induction hs with
  | nil => intro acc; simp [stdValuesOf, joinOnto]
  | cons kv hs ih =>
    intro acc
    obtain ⟨k, v⟩ := kv
    rw [List.foldl_cons, ih]
    cases hk : stdIndex k with
    | none => simp [stepH, hk, stdValuesOf]
    | some j =>
      by_cases hji : j = i
      · subst hji
        simp [stepH, hk, stdValuesOf, joinOnto, lookStd_appendStd]
      · simp [stepH, hk, stdValuesOf, lookStd_appendStd, hji]

end Ohkami.Http
