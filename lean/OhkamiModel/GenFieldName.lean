/-! GENERATED from ohkami/src/request/mod.rs: the bytes admitted in a request header name, and in a header value (closed ranges) -/
namespace Ohkami.Gen
def fieldNameRanges : List (Nat × Nat) := [(33, 33), (35, 39), (42, 42), (43, 43), (45, 45), (46, 46), (94, 122), (124, 124), (126, 126), (48, 57), (65, 90)]
def fieldValueRanges : List (Nat × Nat) := [(9, 9), (32, 126), (128, 255)]
end Ohkami.Gen
