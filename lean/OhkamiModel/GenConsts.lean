/-! GENERATED from ohkami/src/request/mod.rs and request/path.rs -/
namespace Ohkami.Gen
def BUF_SIZE : Nat := 1024
def PAYLOAD_LIMIT : Nat := 4294967296
def PARAMS_LIMIT : Nat := 2
/-- `Request::read` refuses an announced length of PAYLOAD_LIMIT or more (413) before it loads any of the body, wherever the body bytes are -/
def limitCheckedBeforeLoading : Bool := true
end Ohkami.Gen
