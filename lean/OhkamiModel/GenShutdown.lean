/-! GENERATED from ohkami/src/ohkami/mod.rs (`UntilInterrupt::poll`): does the poll look at CATCH before it polls the wrapped future, and again after it
    published its waker?  These are the parameters `flagFirst` / `fixed` of `Ohkami.Shutdown2.step`. -/
namespace Ohkami.Gen
def pollFlagFirst : Bool := true
def pollRecheck : Bool := true
/-- the tail of `howl` is `wg.await`: the wait group itself, awaited to its end -/
def howlAwaitsWaitGroup : Bool := true
end Ohkami.Gen
