import Lean.Data.Json
import OhkamiModel.P.RespProofs
import OhkamiModel.GenResHeaders
/-! Vertical-slice prototype: executable C03 model behind a JSON line protocol. -/
open Lean Ohkami

namespace Slice

def toBytes (s : String) : Bytes := s.toUTF8.toList
def hexDigit (n : Nat) : Char := if n < 10 then Char.ofNat (48 + n) else Char.ofNat (87 + n)
def toHex (bs : Bytes) : String := String.ofList (bs.flatMap fun b => [hexDigit (b.toNat / 16), hexDigit (b.toNat % 16)])
def unhex1 (c : Char) : Nat := if c.isDigit then c.toNat - 48 else c.toNat - 87
def fromHex (s : String) : Bytes :=
  let rec go : List Char → Bytes
    | a :: b :: rest => (unhex1 a * 16 + unhex1 b).toUInt8 :: go rest
    | _ => []
  go s.toList

def names : List Bytes := Gen.resHeaderNames.map fun kv => toBytes kv.2
def nameLen (k : Nat) : Nat := (names.getD k []).length
def keyOf (variant : String) : Option Nat := (Gen.resHeaderNames.map (·.1)).idxOf? variant

structure Resp where
  statusLine : Bytes
  status : Nat
  headers : Headers
  body : Option Bytes

def crlf : Bytes := [13, 10]
def sep : Bytes := [58, 32]

def render (r : Resp) : Bytes :=
  r.statusLine
  ++ (r.headers.std.live.flatMap fun kv => names.getD kv.1 [] ++ sep ++ kv.2 ++ crlf)
  ++ (r.headers.custom.flatMap fun nv => nv.1 ++ sep ++ nv.2 ++ crlf)
  ++ (r.headers.cookies.flatMap fun c => toBytes "Set-Cookie: " ++ c ++ crlf)
  ++ crlf ++ (r.body.getD [])

def declared (r : Resp) : Nat := r.statusLine.length + r.headers.size + (r.body.getD []).length

def hop (r : Resp) (op : HOp) : Resp := { r with headers := r.headers.apply nameLen op }

def key! (v : String) : Nat := (keyOf v).getD 0

def natToDec (n : Nat) : Bytes := toBytes (toString n)

-- Response::new : Headers::new() = Date + Content-Length: 0
def newResp (status : Nat) (line : String) (date : String) : Resp :=
  let h0 : Headers := Headers.empty 47
  let r : Resp := ⟨toBytes line, status, h0, none⟩
  let r := hop r (.insert (key! "Date") (toBytes date))
  hop r (.insert (key! "ContentLength") (toBytes "0"))

def setPayload (r : Resp) (ctype : String) (body : Bytes) : Resp :=
  let r := hop r (.insert (key! "ContentType") (toBytes ctype))
  let r := hop r (.insert (key! "ContentLength") (natToDec body.length))
  { r with body := some body }

-- Response::complete after F4
def complete (r : Resp) : Resp :=
  if r.status = 204 then
    let r := if (r.headers.std.get (key! "ContentLength")).isSome then hop r (.remove (key! "ContentLength")) else r
    { r with body := none }
  else match r.body with
    | none =>
      if (r.headers.std.get (key! "ContentLength")).isNone && !(100 ≤ r.status && r.status ≤ 199 || r.status = 304) then
        hop r (.insert (key! "ContentLength") (toBytes "0"))
      else r
    | some _ => r

def applyOp (r : Resp) (j : Json) : Except String Resp := do
  let arr ← j.getArr?
  let tag ← (arr.getD 0 Json.null).getStr?
  let s (i : Nat) : Except String String := (arr.getD i Json.null).getStr?
  match tag with
  | "set" => return hop r (.insert (key! (← s 1)) (fromHex (← s 2)))
  | "remove" => return hop r (.remove (key! (← s 1)))
  | "append" => return hop r (.append (key! (← s 1)) (fromHex (← s 2)))
  | "xset" => return hop r (.insertX (fromHex (← s 1)) (fromHex (← s 2)))
  | "xremove" => return hop r (.removeX (fromHex (← s 1)))
  | "xappend" => return hop r (.appendX (fromHex (← s 1)) (fromHex (← s 2)))
  | "text" => return setPayload r "text/plain; charset=UTF-8" (fromHex (← s 1))
  | "drop" =>
    let r := hop r (.remove (key! "ContentType"))
    let r := hop r (.remove (key! "ContentLength"))
    return { r with body := none }
  | t => throw s!"unmodelled op {t}"

def runCase (j : Json) : Except String Json := do
  let c ← j.getObjVal? "case"
  let status ← (← c.getObjVal? "status").getNat?
  let line ← (← c.getObjVal? "line").getStr?
  let date ← (← c.getObjVal? "date").getStr?
  let ops ← (← c.getObjVal? "ops").getArr?
  let mut r := newResp status line date
  for op in ops do
    r ← applyOp r op
  let fin := complete r
  return Json.mkObj [("id", (j.getObjValD "id")), ("model", Json.mkObj [("wire", toHex (render fin)), ("declared", declared fin)])]

end Slice

partial def loop (h : IO.FS.Stream) : IO Unit := do
  let line ← h.getLine
  if line.isEmpty then return ()
  match Json.parse line >>= Slice.runCase with
  | .ok j => IO.println j.compress
  | .error e => IO.println (Json.mkObj [("error", e)]).compress
  loop h

def main : IO Unit := do loop (← IO.getStdin)
