/-! shared by every model -/
abbrev Bytes := List UInt8
