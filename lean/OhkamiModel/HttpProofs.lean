import OhkamiModel.Http
namespace Ohkami.Http
open Ohkami.P

structure Req where
  method : Bytes
  path : Bytes
  query : Option Bytes
  headers : List (Bytes × Bytes)
  body : Bytes

def encodeTarget (r : Req) : Bytes := r.path ++ (match r.query with | some q => QM :: q | none => [])

def encode (r : Req) : Bytes :=
  r.method ++ SP :: (encodeTarget r ++ SP :: (HTTP11 ++ (encodeHeaders r.headers ++ [CR, LF] ++ r.body)))

def stepH (acc : List (Nat × Bytes) × List (Bytes × Bytes)) (kv : Bytes × Bytes) : List (Nat × Bytes) × List (Bytes × Bytes) :=
  match stdIndex kv.1 with
  | some i => (appendStd acc.1 i kv.2, acc.2)
  | none => (acc.1, appendCustom acc.2 kv.1 kv.2)

def foldHeaders (hs : List (Bytes × Bytes)) : List (Nat × Bytes) × List (Bytes × Bytes) := hs.foldl stepH ([], [])

def WFH (kv : Bytes × Bytes) : Prop := WFHeader kv ∧ validUtf8 kv.1 = true ∧ validUtf8 kv.2 = true ∧ isName kv.1 = true ∧ isValue kv.2 = true

/-- the header loop reads back exactly the header lines, in order, into the two maps -/
theorem headers_encode : ∀ (hs : List (Bytes × Bytes)), (∀ kv ∈ hs, WFH kv) →
    ∀ (fuel : Nat) (rest : Bytes) (std : List (Nat × Bytes)) (cus : List (Bytes × Bytes)), hs.length < fuel →
    headers fuel (encodeHeaders hs ++ [CR, LF] ++ rest) std cus =
      .ok ((hs.foldl stepH (std, cus)).1, (hs.foldl stepH (std, cus)).2, rest) := by
  intro hs
  induction hs with
  | nil =>
    intro _ fuel rest std cus hf
    cases fuel with
    | zero => simp at hf
    | succ f => simp [headers, encodeHeaders, consume]
  | cons kv hs ih =>
    intro hwf fuel rest std cus hf
    cases fuel with
    | zero => simp at hf
    | succ f =>
      obtain ⟨k, v⟩ := kv
      obtain ⟨⟨hk0, hk, hv⟩, hu1, hu2, hnm, hval⟩ := hwf (k, v) (by simp)
      simp only at hk0 hk hv hu1 hu2 hnm hval
      have ih' := ih (fun x hx => hwf x (by simp [hx])) f rest
      obtain ⟨k0, ks, rfl⟩ : ∃ k0 ks, k = k0 :: ks := by
        cases k with
        | nil => exact absurd rfl hk0
        | cons a b => exact ⟨a, b, rfl⟩
      have hk0cr : k0 ≠ CR := (hk k0 (by simp)).2
      have e1 : encodeHeaders ((k0 :: ks, v) :: hs) ++ [CR, LF] ++ rest
          = (k0 :: ks) ++ COLON :: (SP :: (v ++ CR :: (LF :: (encodeHeaders hs ++ [CR, LF] ++ rest)))) := by
        simp [encodeHeaders]
      rw [e1]
      have hnc : consume [CR, LF] ((k0 :: ks) ++ COLON :: (SP :: (v ++ CR :: (LF :: (encodeHeaders hs ++ [CR, LF] ++ rest))))) = none := by
        simp [consume, List.isPrefixOf, hk0cr.symm]
      have hrk := readWhile_append (· != COLON) (k0 :: ks) COLON (SP :: (v ++ CR :: (LF :: (encodeHeaders hs ++ [CR, LF] ++ rest))))
        (by intro b hb; simpa using (hk b hb).1) (by simp)
      have hrv := readWhile_append (· != CR) v CR (LF :: (encodeHeaders hs ++ [CR, LF] ++ rest))
        (by intro b hb; simpa using hv b hb) (by simp)
      have c1 : consume [COLON, SP] (COLON :: SP :: (v ++ CR :: LF :: (encodeHeaders hs ++ [CR, LF] ++ rest)))
          = some (v ++ CR :: LF :: (encodeHeaders hs ++ [CR, LF] ++ rest)) := consume_append [COLON, SP] _
      have c2 : consume [CR, LF] (CR :: LF :: (encodeHeaders hs ++ [CR, LF] ++ rest))
          = some (encodeHeaders hs ++ [CR, LF] ++ rest) := consume_append [CR, LF] _
      rw [headers]
      simp only [hnc, hrk, c1, hrv, hu1, hu2, hnm, hval, Bool.and_self, Bool.not_true, Bool.false_eq_true, if_false, c2]
      simp only [List.foldl_cons, stepH]
      cases hsi : stdIndex (k0 :: ks) with
      | some i => simp only; exact ih' _ _ (by simp at hf; omega)
      | none => simp only; exact ih' _ _ (by simp at hf; omega)

end Ohkami.Http

namespace Ohkami.Http
open Ohkami.P

structure WF (r : Req) (mname : String) : Prop where
  method : methodOf r.method = some mname
  method_nosp : ∀ b ∈ r.method, b ≠ SP
  path_slash : r.path.head? = some SLASH
  path_chars : ∀ b ∈ r.path, b ≠ SP ∧ b ≠ QM
  path_utf8 : validUtf8 r.path = true
  query_chars : ∀ q, r.query = some q → ∀ b ∈ q, b ≠ SP
  headers : ∀ kv ∈ r.headers, WFH kv
  -- the body is announced by exactly one Content-Length header (any spelling, any decimal rendering) iff it is not empty
  cl : (foldHeaders r.headers).1.find? (·.1 = Gen.contentLengthIndex) =
        (if r.body = [] then none else (foldHeaders r.headers).1.find? (·.1 = Gen.contentLengthIndex))
  cl_some : r.body ≠ [] → ∃ v, (foldHeaders r.headers).1.find? (·.1 = Gen.contentLengthIndex) = some (Gen.contentLengthIndex, v)
      ∧ v.isEmpty = false ∧ v.all isDigit = true ∧ decimal v = r.body.length
  body_small : r.body.length < PAYLOAD_LIMIT

def view (r : Req) (mname : String) : Parsed :=
  ⟨mname, if r.path.getLast? == some SLASH then r.path.dropLast else r.path, r.query,
   (foldHeaders r.headers).1, (foldHeaders r.headers).2, if r.body = [] then none else some r.body⟩

theorem encodeHeaders_length (hs : List (Bytes × Bytes)) : hs.length ≤ (encodeHeaders hs).length := by
  induction hs with
  | nil => simp [encodeHeaders]
  | cons kv hs ih =>
    have : encodeHeaders (kv :: hs) = (kv.1 ++ [COLON, SP] ++ kv.2 ++ [CR, LF]) ++ encodeHeaders hs := by
      simp [encodeHeaders]
    rw [this]
    simp only [List.length_append, List.length_cons, List.length_nil]
    omega

/-- what happens after the request line: headers, then the body by its announced length -/
theorem finish_encode (r : Req) (mname : String) (h : WF r mname) (more np : Bytes) (query : Option Bytes) :
    finish mname np query (encodeHeaders r.headers ++ [CR, LF] ++ r.body) more =
      .ok ⟨mname, np, query, (foldHeaders r.headers).1, (foldHeaders r.headers).2, if r.body = [] then none else some r.body⟩ := by
  unfold finish
  have hl := encodeHeaders_length r.headers
  have hh := headers_encode r.headers h.headers ((encodeHeaders r.headers ++ [CR, LF] ++ r.body).length + 1) r.body [] []
    (by simp only [List.length_append]; omega)
  rw [hh]
  simp only
  have hfold : List.foldl stepH ([], []) r.headers = foldHeaders r.headers := rfl
  rw [hfold]
  by_cases hb : r.body = []
  · have := h.cl
    rw [if_pos hb] at this
    simp [this, hb]
  · obtain ⟨v, hv, hne, hdig, hdec⟩ := h.cl_some hb
    have hlen : 0 < r.body.length := List.length_pos_iff.mpr hb
    have hsmall := h.body_small
    have hus : ¬ (decimal v > USIZE_MAX) := by
      rw [hdec]; unfold USIZE_MAX; unfold PAYLOAD_LIMIT at hsmall; omega
    simp only [hv, hne, hdig, Bool.false_or, Bool.not_true, Bool.false_eq_true, if_false, hus, hdec, hb]
    have h0 : ¬ (r.body.length = 0) := by omega
    have hlim : ¬ (PAYLOAD_LIMIT ≤ r.body.length) := by omega
    have hus' : ¬ (USIZE_MAX < r.body.length) := by rw [← hdec]; exact hus
    simp [h0, hlim, hus']

/-- C02, faithfulness: every well-formed request, given to `read` in one piece, comes out as exactly what it denotes -/
theorem parse_encode (r : Req) (mname : String) (h : WF r mname) (more : Bytes) :
    parse (encode r) more = .ok (view r mname) := by
  unfold parse encode
  -- method
  rw [readWhile_append (· != SP) r.method SP _ (by intro b hb; simpa using h.method_nosp b hb) (by simp)]
  simp only [h.method]
  have hsp : (SP != SP) = false := by decide
  simp only [hsp, Bool.false_eq_true, if_false]
  -- target, query, version
  have hpathp : ∀ b ∈ r.path, (b != SP && b != QM) = true := by
    intro b hb; have := h.path_chars b hb; simp [this.1, this.2]
  have hqs : (QM == SP) = false := by decide
  have hqm1 : (SP != SP && SP != QM) = false := by decide
  have hqm2 : (QM != SP && QM != QM) = false := by decide
  have hstep : readWhile (fun b => b != SP && b != QM) (encodeTarget r ++ SP :: (HTTP11 ++ (encodeHeaders r.headers ++ [CR, LF] ++ r.body)))
      = (r.path, (match r.query with
                  | none => SP :: (HTTP11 ++ (encodeHeaders r.headers ++ [CR, LF] ++ r.body))
                  | some q => QM :: (q ++ SP :: (HTTP11 ++ (encodeHeaders r.headers ++ [CR, LF] ++ r.body))))) := by
    unfold encodeTarget
    cases hqq : r.query with
    | none =>
      simp only [List.append_nil]
      exact readWhile_append (fun b => b != SP && b != QM) r.path SP _ hpathp hqm1
    | some q =>
      simp only [List.append_assoc, List.cons_append]
      exact readWhile_append (fun b => b != SP && b != QM) r.path QM _ hpathp hqm2
  rw [hstep]
  simp only [h.path_slash, bne_self_eq_false, Bool.false_eq_true, if_false, h.path_utf8, Bool.not_true]
  cases hqq : r.query with
  | none =>
    simp only [beq_self_eq_true, if_true, consume_append HTTP11]
    have := finish_encode r mname h more (if (List.getLast? r.path == some SLASH) = true then List.dropLast r.path else r.path) none
    rw [this]; unfold view; rw [hqq]
  | some q =>
    simp only [hqs, Bool.false_eq_true, if_false, beq_self_eq_true, if_true]
    rw [readWhile_append (· != SP) q SP _ (by intro b hb; simpa using h.query_chars q hqq b hb) (by simp)]
    simp only [List.drop_succ_cons, List.drop_zero, consume_append HTTP11]
    have := finish_encode r mname h more (if (List.getLast? r.path == some SLASH) = true then List.dropLast r.path else r.path) (some q)
    rw [this]; unfold view; rw [hqq]

end Ohkami.Http
