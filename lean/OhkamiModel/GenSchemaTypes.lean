/-! GENERATED from ohkami_openapi/src/schema.rs -/
namespace Ohkami.Gen
def schemaTypeNames : List (String × String) := [
  ("string", "string"),
  ("number", "number"),
  ("integer", "integer"),
  ("bool", "boolean"),
  ("array", "array"),
  ("object", "object"),
  ("any", "")
]
end Ohkami.Gen
