import OhkamiModel.TimeProofs
namespace Ohkami.Time
open Ohkami.Gen.Time

/-! bit packing of `Date(i32)` : `(year << 13) | of` -/
theorem pack_unpack (year of_ : Nat) (h : of_ < 8192) :
    unpackOf (pack year of_) = of_ ∧ unpackYear (pack year of_) = year := by
  unfold unpackOf unpackYear pack
  have e : year <<< 13 ||| of_ = year <<< 13 + of_ :=
    (Nat.shiftLeft_add_eq_or_of_lt (by simpa using h) year).symm
  rw [e, Nat.shiftLeft_eq]
  have h8191 : (8191 : Nat) = 2 ^ 13 - 1 := by decide
  rw [h8191, Nat.and_two_pow_sub_one_eq_mod, Nat.shiftRight_eq_div_pow]
  constructor <;> omega

theorem ofNew_lt (ord f : Nat) (ho : ord ≤ 366) (hf : f < 16) : ofNew ord f < 8192 := by
  unfold ofNew
  have e : ord <<< 4 ||| f = ord <<< 4 + f := (Nat.shiftLeft_add_eq_or_of_lt (by simpa using hf) ord).symm
  rw [e, Nat.shiftLeft_eq]; omega

/-! month and day of an ordinal: finite check of the walk against the cumulative month lengths -/
theorem monthDay_valid : ∀ leap : Bool, ∀ ord : Fin 367, 1 ≤ ord.val → ord.val ≤ 365 + (if leap then 1 else 0) →
    let md := monthDayOfOrd leap ord.val
    1 ≤ md.1 ∧ md.1 ≤ 12 ∧ 1 ≤ md.2 ∧ md.2 ≤ monthLen leap md.1 ∧ daysBeforeMonth leap md.1 + md.2 = ord.val := by
  decide +kernel

theorem weekdayOfMod7_id (n : Nat) : weekdayOfMod7 n = n % 7 := by
  unfold weekdayOfMod7
  have : ∀ k : Fin 7, [0, 1, 2, 3, 4, 5, 6].getD k.val 0 = k.val := by decide
  exact this ⟨n % 7, Nat.mod_lt _ (by decide)⟩

attribute [local irreducible] monthDayOfOrd

/-- C20, date part: for every timestamp up to 9999-12-31T23:59:59 the fields that `into_imf_fixdate`
    prints are the Gregorian date, weekday and time of day of that instant. -/
theorem fields_correct (t : Nat) (ht : t ≤ 253402300799) :
    let F := fields t
    ValidDate F.year (F.monthIdx + 1) F.day
    ∧ dayNumber F.year (F.monthIdx + 1) F.day = t / 86400 + (719163 + 365 + 1)
    ∧ F.wday = (t / 86400 + 4) % 7
    ∧ F.year ≤ 9999
    ∧ F.hour = t % 86400 / 3600 ∧ F.min = t % 3600 / 60 ∧ F.sec = t % 60 := by
  intro F
  -- unfold the pipeline
  have hd : shifted (dateArg (daysOf t)) = t / 86400 + 719163 + 365 := by simp [shifted, dateArg, daysOf]
  generalize hdv : t / 86400 + 719163 + 365 = d at hd
  have hc : cycleOf d < 146097 := by unfold cycleOf; omega
  obtain ⟨hym, hord1, hord2, hceq⟩ := cycleToYo_spec (cycleOf d) hc
  generalize hyo : cycleToYo (cycleOf d) = yo at hym hord1 hord2 hceq
  obtain ⟨ym, ord⟩ := yo
  simp only at hym hord1 hord2 hceq
  -- the year flag
  have hfl := yearFlag_closed ⟨ym, hym⟩
  simp only at hfl
  have hflag : flagOf ym = YEAR_TO_FLAG.getD ym 0 := by unfold flagOf; rw [Nat.mod_eq_of_lt hym]
  generalize hf : YEAR_TO_FLAG.getD ym 0 = f at hfl hflag
  obtain ⟨hf16, hfleap, hfw⟩ := hfl
  have hleapf : (if f < 8 then 1 else 0) = (if isLeap ym then 1 else 0) := by
    by_cases h8 : f < 8 <;> simp [h8] at hfleap ⊢ <;> simp [← hfleap]
  have hord366 : ord ≤ 366 := by split at hord2 <;> omega
  have hordf : ord ≤ 365 + (if f < 8 then 1 else 0) := by rw [hleapf]; exact hord2
  have hof := ofNew_lt ord f hord366 hf16
  have hpk := pack_unpack (yearOf (yearDiv400 d) ym) (ofNew ord f) hof
  have htab := olToMdl_closed ⟨ord, by omega⟩ ⟨f, hf16⟩ hord1 hordf
  simp only at htab
  obtain ⟨hmd, hwarg, _⟩ := htab
  have hmdv := monthDay_valid (decide (f < 8)) ⟨ord, by omega⟩ hord1 (by simpa using hordf)
  simp only at hmdv
  -- the fields
  have hF : F = { wday := numDaysFromSunday (weekdayOfMod7 (weekdayArg (ofNew ord f))),
                  day := mdfDay (mdfOf (ofNew ord f)), monthIdx := mdfMonth (mdfOf (ofNew ord f)) - 1,
                  year := yearOf (yearDiv400 d) ym,
                  hour := (hms (secsOf t)).1, min := (hms (secsOf t)).2.1, sec := (hms (secsOf t)).2.2 } := by
    show fields t = _
    unfold fields
    simp only [hd, hyo, hflag, hpk.1, hpk.2]
  rw [hF]
  simp only
  have hm := (Prod.mk.inj hmd).1
  have hdday := (Prod.mk.inj hmd).2
  rw [hm, hdday]
  generalize hmdg : monthDayOfOrd (decide (f < 8)) ord = md at hmdv
  obtain ⟨m, dd⟩ := md
  simp only at hmdv
  obtain ⟨hm1, hm12, hd1, hdlen, hsum⟩ := hmdv
  have hyear : yearOf (yearDiv400 d) ym = 400 * (d / 146097) + ym := by unfold yearOf yearDiv400; omega
  have hleapy : isLeap (yearOf (yearDiv400 d) ym) = decide (f < 8) := by
    rw [hyear, isLeap_400, hfleap]
  have hm' : m - 1 + 1 = m := by omega
  refine ⟨?_, ?_, ?_, ?_, ?_, ?_, ?_⟩
  · -- valid date
    unfold ValidDate
    rw [hm', hleapy]
    exact ⟨hm1, hm12, hd1, hdlen⟩
  · -- day number
    unfold dayNumber daysBeforeYear
    rw [hm', hleapy, hyear, leaps_400]
    have hcd : d = 146097 * (d / 146097) + cycleOf d := by unfold cycleOf; have := Nat.div_add_mod d 146097; omega
    omega
  · -- weekday
    rw [hwarg, weekdayOfMod7_id]
    unfold numDaysFromSunday
    have hcd : d = 146097 * (d / 146097) + cycleOf d := by unfold cycleOf; have := Nat.div_add_mod d 146097; omega
    omega
  · rw [hyear]; omega
  · simp [hms, secsOf] <;> omega
  · simp [hms, secsOf] <;> omega
  · simp [hms, secsOf] <;> omega

end Ohkami.Time
