/-! GENERATED from ohkami_lib/src/mime.rs -/
namespace Ohkami.Gen
def mimeTable : List (String × String) := [
  ("txt", "text/plain"),
  ("html", "text/html"),
  ("css", "text/css"),
  ("js", "text/javascript"),
  ("xml", "text/xml"),
  ("csv", "text/csv"),
  ("tsv", "text/tab-separated-values"),
  ("vcard", "text/vcard"),
  ("jpeg", "image/jpeg"),
  ("gif", "image/gif"),
  ("png", "image/png"),
  ("svg", "image/svg+xml"),
  ("woff", "font/woff"),
  ("woff2", "font/woff2"),
  ("json", "application/json"),
  ("pdf", "application/pdf")
]
end Ohkami.Gen
