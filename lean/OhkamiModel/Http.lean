import OhkamiModel.P.Hdrs
import OhkamiModel.GenReqHeaders
import OhkamiModel.GenFieldName
/-! C02 model: `Request::read` (ohkami/src/request/mod.rs, as repaired) over the bytes of the first read, byte_reader style. -/
namespace Ohkami.Http
open Ohkami.P

def toBytes (s : String) : Bytes := s.toUTF8.toList
def SLASH : UInt8 := 47
def QM : UInt8 := 63

/-! UTF-8 validity as `core::str::from_utf8` decides it (RFC 3629: no overlongs, no surrogates, ≤ U+10FFFF) -/
def cont (b : UInt8) : Bool := 0x80 ≤ b && b ≤ 0xBF
def validUtf8 : Bytes → Bool
  | [] => true
  | b0 :: rest =>
    if b0 < 0x80 then validUtf8 rest
    else if 0xC2 ≤ b0 && b0 ≤ 0xDF then
      match rest with
      | b1 :: r => cont b1 && validUtf8 r
      | _ => false
    else if 0xE0 ≤ b0 && b0 ≤ 0xEF then
      match rest with
      | b1 :: b2 :: r =>
        (if b0 = 0xE0 then 0xA0 ≤ b1 && b1 ≤ 0xBF else if b0 = 0xED then 0x80 ≤ b1 && b1 ≤ 0x9F else cont b1)
          && cont b2 && validUtf8 r
      | _ => false
    else if 0xF0 ≤ b0 && b0 ≤ 0xF4 then
      match rest with
      | b1 :: b2 :: b3 :: r =>
        (if b0 = 0xF0 then 0x90 ≤ b1 && b1 ≤ 0xBF else if b0 = 0xF4 then 0x80 ≤ b1 && b1 ≤ 0x8F else cont b1)
          && cont b2 && cont b3 && validUtf8 r
      | _ => false
    else false

def lower (b : UInt8) : UInt8 := if 65 ≤ b && b ≤ 90 then b + 32 else b

-- standard header index of a name, in any letter case (F5e)
def stdIndex (name : Bytes) : Option Nat := Gen.reqHeaderLower.idxOf? (name.map lower)

def methodOf (bs : Bytes) : Option String := (Gen.methodBytes.idxOf? bs).bind fun i => Gen.methods[i]?

def HTTP11 : Bytes := [72, 84, 84, 80, 47, 49, 46, 49, 13, 10]    -- "HTTP/1.1\r\n"

inductive Outcome (α : Type) where
  | ok (a : α)
  | reject (status : Nat)
  | close
  | panic (site : String)
deriving Repr

structure Parsed where
  method : String
  path : Bytes                       -- normalized: one trailing '/' stripped
  query : Option Bytes
  std : List (Nat × Bytes)           -- insertion order; repeated names joined with ", "
  custom : List (Bytes × Bytes)
  payload : Option Bytes
deriving Repr

def joinSep : Bytes := [44, 32]

def appendStd (l : List (Nat × Bytes)) (k : Nat) (v : Bytes) : List (Nat × Bytes) :=
  match l.findIdx? (·.1 = k) with
  | some i => l.set i (k, ((l[i]?).map (·.2)).getD [] ++ joinSep ++ v)
  | none => l ++ [(k, v)]

/-- names outside the table compare in any letter case too (`Name::eq`); the entry keeps the spelling first seen -/
def sameName (a b : Bytes) : Bool := a.map lower == b.map lower

def appendCustom (l : List (Bytes × Bytes)) (n : Bytes) (v : Bytes) : List (Bytes × Bytes) :=
  match l.findIdx? (sameName ·.1 n) with
  | some i => l.set i (((l[i]?).map (·.1)).getD n, ((l[i]?).map (·.2)).getD [] ++ joinSep ++ v)
  | none => l ++ [(n, v)]

/-- the bytes of a field name: the set the header loop of `Request::read` checks, REGENERATED from the source (`GenFieldName`);
    `tchar_is_rfc9110` (Proofs/C02) shows it is exactly the `tchar` of RFC 9110 5.6.2 -/
def isTchar (b : UInt8) : Bool := Gen.fieldNameRanges.any fun r => r.1 ≤ b.toNat && b.toNat ≤ r.2
def isName (k : Bytes) : Bool := !k.isEmpty && k.all isTchar
/-- the bytes of a field value: the set the header loop checks, REGENERATED from the source as well; `vchar_is_rfc9110` (Proofs/C02) shows it is HTAB, SP,
    VCHAR and obs-text — no other control byte, so no NUL and no bare LF (RFC 9110 5.5) -/
def isVbyte (b : UInt8) : Bool := Gen.fieldValueRanges.any fun r => r.1 ≤ b.toNat && b.toNat ≤ r.2
def isValue (v : Bytes) : Bool := v.all isVbyte

-- the header loop of `read`
def headers : Nat → Bytes → List (Nat × Bytes) → List (Bytes × Bytes) →
    Outcome (List (Nat × Bytes) × List (Bytes × Bytes) × Bytes)
  | 0, _, _, _ => .reject 400
  | fuel + 1, bs, std, cus =>
    match consume [CR, LF] bs with
    | some rest => .ok (std, cus, rest)
    | none =>
      let (k, r1) := readWhile (· != COLON) bs
      match consume [COLON, SP] r1 with
      | none => .reject 400
      | some r2 =>
        let (v, r3) := readWhile (· != CR) r2
        if !(isName k && isValue v && validUtf8 k && validUtf8 v) then .reject 400 else
        match consume [CR, LF] r3 with
        | none => .reject 400
        | some r4 =>
          match stdIndex k with
          | some i => headers fuel r4 (appendStd std i v) cus
          | none => headers fuel r4 std (appendCustom cus k v)

def isDigit (b : UInt8) : Bool := 48 ≤ b && b ≤ 57
def decimal (v : Bytes) : Nat := v.foldl (fun n b => 10 * n + (b.toNat - 48)) 0
def PAYLOAD_LIMIT : Nat := 2 ^ 32
def USIZE_MAX : Nat := 2 ^ 64 - 1

-- after the request line: the header block, then the body by its announced length (`read_payload`)
def finish (method : String) (npath : Bytes) (query : Option Bytes) (r6 more : Bytes) : Outcome Parsed :=
  match headers (r6.length + 1) r6 [] [] with
  | .reject s => .reject s
  | .close => .close
  | .panic s => .panic s
  | .ok (std, cus, remaining) =>
    match std.find? (·.1 = Gen.contentLengthIndex) with
    | none => .ok ⟨method, npath, query, std, cus, none⟩
    | some (_, v) =>
      if v.isEmpty || !v.all isDigit then .reject 400 else
      let len := if decimal v > USIZE_MAX then USIZE_MAX else decimal v
      if len = 0 then .ok ⟨method, npath, query, std, cus, none⟩
      else if len ≥ PAYLOAD_LIMIT then .reject 413
      else if remaining.length = 0 then
        if more.length ≥ len then .ok ⟨method, npath, query, std, cus, some (more.take len)⟩
        else .close   -- `read_exact` hit the end of the connection: the session ends (after the repair; it was an `unwrap` panic)
      else if len ≤ remaining.length then .ok ⟨method, npath, query, std, cus, some (remaining.take len)⟩
      else if more.length ≥ len - remaining.length then
        .ok ⟨method, npath, query, std, cus, some (remaining ++ more.take (len - remaining.length))⟩
      else .close   -- `read_exact` hit the end of the connection: the session ends (after the repair; it was an `unwrap` panic)

/-- `first` = the bytes of the first read (1 ≤ len ≤ 1024), `more` = what the stream still holds when `read_exact` runs -/
def parse (first more : Bytes) : Outcome Parsed :=
  let (m, r0) := readWhile (· != SP) first
  match methodOf m with
  | none => .close
  | some method =>
    match r0 with
    | b :: r1 =>
      if b != SP then .reject 400 else
      let (path, r2) := readWhile (fun b => b != SP && b != QM) r1
      if path.head? != some SLASH then .reject 501 else
      if !validUtf8 path then .reject 400 else
      let npath := if path.getLast? == some SLASH then path.dropLast else path
      -- consume_oneof([" ", "?"])
      let afterTarget : Option (Option Bytes × Bytes) :=
        match r2 with
        | c :: r3 =>
          if c == SP then some (none, r3)
          else if c == QM then
            let (q, r4) := readWhile (· != SP) r3
            some (some q, r4.drop 1)
          else none
        | [] => none
      match afterTarget with
      | none => .reject 400
      | some (query, r5) =>
        match consume HTTP11 r5 with
        | none => .reject 505
        | some r6 => finish method npath query r6 more
    | [] => .reject 400

end Ohkami.Http
