import OhkamiModel.TimeSpec
namespace Ohkami.Time
open Ohkami.Gen.Time

/-! closed forms of the generated tables (finite, by kernel evaluation) -/
theorem yearDeltas_closed : ∀ i : Fin 401, YEAR_DELTAS.getD i.val 0 = leaps i.val := by decide +kernel

theorem yearDeltas_eq (y : Nat) (h : y ≤ 400) : YEAR_DELTAS.getD y 0 = leaps y :=
  yearDeltas_closed ⟨y, by omega⟩

-- flag: bit 3 set = common year; low three bits fix the weekday of the ordinals
theorem yearFlag_closed : ∀ y : Fin 400,
    let f := YEAR_TO_FLAG.getD y.val 0
    f < 16 ∧ (decide (f < 8) = isLeap y.val) ∧ (f % 8) % 7 = (4 + y.val + leaps y.val) % 7 := by decide +kernel

-- month/day from ordinal and leap bit, for every valid `of`
def monthDayOfOrd (leap : Bool) (ord : Nat) : Nat × Nat :=
  -- walk the months
  let rec go (m : Nat) (rest : Nat) (fuel : Nat) : Nat × Nat :=
    match fuel with
    | 0 => (m, rest)
    | fuel + 1 => if rest ≤ monthLen leap m then (m, rest) else go (m + 1) (rest - monthLen leap m) fuel
  go 1 ord 12

theorem olToMdl_closed : ∀ ord : Fin 367, ∀ f : Fin 16, 1 ≤ ord.val → ord.val ≤ 365 + (if f.val < 8 then 1 else 0) →
    let of_ := ofNew ord.val f.val
    let mdf := mdfOf of_
    (mdfMonth mdf, mdfDay mdf) = monthDayOfOrd (decide (f.val < 8)) ord.val
      ∧ weekdayArg of_ = ord.val + f.val % 8 ∧ unpackOf (pack 0 of_) = of_ := by decide +kernel

end Ohkami.Time
