import OhkamiModel.Drv.Common
import OhkamiModel.M.EchoApp
/-! C05 / C06 driver: {"script": [hex], "eof": bool} -> the responses of the session, in order, and how it ended -/
open Lean Ohkami Ohkami.Session Drv

namespace DrvC05
def endStr : End → String
  | .connClose => "closed_by_server" | .none => "none" | .stalled => "stalled" | .fuelOut => "fuel"

def runCase (j : Json) : Except String Json := do
  let c ← j.getObjVal? "case"
  if (jopt c "timed").isSome then throw "unmodelled: scenarios in real time (the model has no clock)"
  let script ← (← jarr c "script").toList.mapM fun s => do pure (fromHex (← s.getStr?))
  let eof := match jopt c "eof" with | some (.bool b) => b | _ => true
  let (outs, e) := run EchoApp.app (script.length * 4 + (script.map List.length).sum / 8 + 16) ⟨none, 0⟩ ⟨script, eof⟩
  return Json.mkObj [("id", j.getObjValD "id"), ("model", Json.mkObj [("responses", Json.arr (outs.map hexJ).toArray), ("end", endStr e)])]
end DrvC05
