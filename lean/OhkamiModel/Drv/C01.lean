import OhkamiModel.Drv.Common
import OhkamiModel.M.RouterFull
import OhkamiModel.P.Chain
import OhkamiModel.M.HttpObs
import OhkamiModel.P.Fangs
/-! C01 / C04 driver.  case = {"app": App, "stop": int|null, "reqs": [{"m","p"}]}  (App as in harness/src/apps.rs).
Per request: the per-method application tree -> `build` -> `finalize` (repaired rule) -> `searchP` -> handler, params, trace.
`spec` = `greedyChain` on the flattened routes (exact when no application has fangs: then compression is unrestricted). -/
open Lean Ohkami Ohkami.Fangs Drv

namespace DrvC01

structure Cfg where
  fangsOf : List (Nat × List Nat)      -- application id -> its fangs in declaration order
  localOf : List (Nat × List Nat)      -- handler id -> its local fangs
  anyFangs : Bool

/-- the application tree restricted to one method; ids by preorder -/
partial def appOf (m : String) (j : Json) (next : Nat) : Except String (App × Nat × List (Nat × List Nat) × List (Nat × List Nat)) := do
  let id := next
  let fangs ← match jopt j "fangs" with
    | some a => (← a.getArr?).toList.mapM fun x => x.getNat?
    | none => pure []
  let items ← jarr j "items"
  let mut routes : List (Route × Nat) := []
  let mut mounts : List (Route × App) := []
  let mut n := next + 1
  let mut fo : List (Nat × List Nat) := [(id, fangs)]
  let mut lo : List (Nat × List Nat) := []
  for it in items.toList do
    match jopt it "mount" with
    | some mt =>
      let (sub, n', fo', lo') ← appOf m (← it.getObjVal? "app") n
      mounts := mounts ++ [(parseRoute (toBytes (← mt.getStr?)), sub)]
      n := n'; fo := fo ++ fo'; lo := lo ++ lo'
    | none =>
      let ms ← (← jarr it "methods").toList.mapM fun x => x.getStr?
      let h ← jnat it "h"
      let loc ← match jopt it "local" with
        | some a => (← a.getArr?).toList.mapM fun x => x.getNat?
        | none => pure []
      lo := lo ++ [(h, loc)]
      if ms.contains m then routes := routes ++ [(parseRoute (toBytes (← jstr it "route")), h)]
  -- the harness builds every application with `Ohkami::with(fangs, ..)` (or `Ohkami::new((fangs.., ..))` when there are some): its fang
  -- entry exists even for `()`, and opens a scope at the mount node (no single-child compression across it)
  return (App.mk id true routes mounts, n, fo, lo)

/-- flattened routes of the (per-method) tree: the spec's input -/
partial def flat : App → List (Route × Nat)
  | .mk _ _ routes mounts => routes ++ mounts.flatMap fun (r, a) => (flat a).map fun (r', h) => (r ++ r', h)

def evStr : Ev → String
  | .enter f => s!"+{f}" | .leave f => s!"-{f}" | .handler (some h) => s!"h{h}" | .handler none => "miss"

def handleOne (app : App) (cfg : Cfg) (stop : Option Nat) (m : String) (p : Bytes) : Json :=
  match build app with
  | none => Json.mkObj [("build", "refused")]
  | some t =>
    let passes0 := fun f => some f != stop
    let segs := Ohkami.segments (Ohkami.normalize p)
    let fuel := segs.length + 40
    -- fangs and handler come from `search`, the function the theorems of C04 are about (`C04.scope`); `searchP` (the loop shaped like
    -- `search_target`, which also collects the params) must agree with it: `internal`
    let (fsP, hP, caps) := searchP fuel (finalize true fuel t false) segs []
    let (fs, h) := search fuel (finalize true fuel t false) segs
    let hyp := sideCond app && decide (idsOf app).Nodup
    let chain := scopeChain app segs
    let specTr := (onion passes0 ((chain.flatMap fun a => (cfg.fangsOf.lookup a).getD []) ++
        (match h with | some hid => (cfg.localOf.lookup hid).getD [] | none => [])) h).filter (· != .handler none)
    let outer := fs.reverse.flatMap fun a => (cfg.fangsOf.lookup a).getD []
    let loc := match h with | some hid => (cfg.localOf.lookup hid).getD [] | none => []
    let passes := passes0
    let tr := (onion passes (outer ++ loc) h).filter (· != .handler none)
    let ran := tr.contains (.handler h) && h.isSome
    let stopped := tr.any fun e => match e with | .enter f => some f == stop | _ => false
    let status : Nat := if stopped then 418 else if h.isSome then 200 else 404
    let spec := greedyChain (segs.length + 1) (flat app) segs
    Json.mkObj [("status", status), ("body", ran && m != "HEAD"),
      ("handler", if ran then (match h with | some x => Json.num x | none => Json.null) else Json.null),
      ("params", if ran then Json.arr ((caps.take 2).map fun c => hexJ (Http.utf8Lossy (Percent.decode c))).toArray else Json.null),
      ("trace", Json.arr (tr.map fun e => Json.str (evStr e)).toArray),
      ("spec", match spec with
        | some (h', ps) => Json.mkObj [("handler", h'), ("params", Json.arr ((ps.take 2).map fun c => hexJ (Http.utf8Lossy (Percent.decode c))).toArray)]
        | none => Json.null),
      ("internal", fsP == fs && hP == h), ("scope_hyp", hyp),
      ("scope_trace", Json.arr (specTr.map fun e => Json.str (evStr e)).toArray),
      ("spec_exact", !cfg.anyFangs && (match app with | .mk _ _ _ mounts => mounts.isEmpty))]

def runCase (j : Json) : Except String Json := do
  let c ← j.getObjVal? "case"
  let appJ ← c.getObjVal? "app"
  let stop : Option Nat := match jopt c "stop" with | some v => v.getNat?.toOption | none => none
  let reqs ← jarr c "reqs"
  let mut outs : List Json := []
  let mut refused := false
  -- a registration conflict in any method tree refuses the whole application at start-up
  for m in ["GET", "PUT", "POST", "PATCH", "DELETE"] do
    let (app, _, _, _) ← appOf m appJ 0
    if (build app).isNone then refused := true
  if refused then return Json.mkObj [("id", j.getObjValD "id"), ("model", Json.mkObj [("build", "refused")])]
  for r in reqs.toList do
    let m ← jstr r "m"
    let p ← jhex r "p"
    let m' := if m == "HEAD" then "GET" else m
    let (app, _, fo, lo) ← appOf m' appJ 0
    let cfg : Cfg := ⟨fo, lo, fo.any fun x => !x.2.isEmpty⟩
    outs := outs ++ [handleOne app cfg stop m p]
  return Json.mkObj [("id", j.getObjValD "id"), ("model", Json.mkObj [("reqs", Json.arr outs.toArray)])]

end DrvC01
