import OhkamiModel.Drv.C01
import OhkamiModel.M.Cors
/-! C14 driver: {"cors": {"origin", "credentials", "allow_headers": [str]|null, "expose_headers": [str]|null, "max_age": int|null},
"app": App, "reqs": [{"m", "p": hex, "origin": bool, "acrm": str|null, "acrh": str|null}]}.
The CORS fang is the (only) fang of the root application. -/
open Lean Ohkami Ohkami.Fangs Ohkami.Cors Drv

namespace DrvC14

def joinStrs (j : Json) (k : String) : Except String (Option Bytes) :=
  match jopt j k with
  | none => pure none
  | some a => do
    let l ← (← a.getArr?).toList.mapM fun x => do pure (toBytes (← x.getStr?))
    pure (some (intercalate SEP l))

/-- (flat pattern, methods) of every route item, in registration order -/
partial def flatMethods (j : Json) (pre : Route) : Except String (List (Route × List String)) := do
  let mut out : List (Route × List String) := []
  for it in (← jarr j "items").toList do
    match jopt it "mount" with
    | some mt => out := out ++ (← flatMethods (← it.getObjVal? "app") (pre ++ parseRoute (toBytes (← mt.getStr?))))
    | none =>
      let ms ← (← jarr it "methods").toList.mapM fun x => x.getStr?
      out := out ++ [(pre ++ parseRoute (toBytes (← jstr it "route")), ms)]
  return out

/-- the OPTIONS tree: every distinct route pattern once per application (a route registered by two items keeps one node) -/
partial def optionsApp (j : Json) (next : Nat) (pre : Route) (tbl : List (Route × List String)) (taken : List Route := []) : Except String (App × Nat) := do
  let id := next
  -- flat patterns this application registers itself (a mounted application's route at the same flat pattern joins the same node:
  -- the automatic OPTIONS handler is re-registered with the union of the methods after the mount)
  let own ← (← jarr j "items").toList.filterMapM fun it => do
    match jopt it "mount" with
    | some _ => pure none
    | none => pure (some (pre ++ parseRoute (toBytes (← jstr it "route"))))
  let mut routes : List (Route × Nat) := []
  let mut mounts : List (Route × App) := []
  let mut n := next + 1
  for it in (← jarr j "items").toList do
    match jopt it "mount" with
    | some mt =>
      let r := parseRoute (toBytes (← mt.getStr?))
      let (sub, n') ← optionsApp (← it.getObjVal? "app") n (pre ++ r) tbl (taken ++ own)
      mounts := mounts ++ [(r, sub)]; n := n'
    | none =>
      let r := parseRoute (toBytes (← jstr it "route"))
      if !(routes.any fun x => x.1 == r) && !(taken.contains (pre ++ r)) then
        -- handler id = index of the flat pattern in the table of method unions
        routes := routes ++ [(r, (tbl.findIdx? fun x => x.1 == pre ++ r).getD 0)]
  -- every application of the harness is built with `Ohkami::with(..)`: its fang entry exists even for `()` and opens a scope at its mount node
  return (App.mk id true routes mounts, n)

def methodUnion (fm : List (Route × List String)) : List (Route × List String) :=
  fm.foldl (fun acc (r, ms) =>
    match acc.findIdx? (·.1 == r) with
    | some i => acc.set i (r, (acc[i]?.map (·.2)).getD [] ++ ms.filter fun m => !((acc[i]?.map (·.2)).getD []).contains m)
    | none => acc ++ [(r, ms)]) []

def optJ : Option Bytes → Json | some b => hexJ b | none => Json.null

def runCase (j : Json) : Except String Json := do
  let c ← j.getObjVal? "case"
  let pj ← c.getObjVal? "cors"
  let pol := mkPolicy (toBytes (← jstr pj "origin")) (← jbool pj "credentials") (← joinStrs pj "allow_headers") (← joinStrs pj "expose_headers")
    (match jopt pj "max_age" with | some v => v.getNat?.toOption | none => none)
  let appJ ← c.getObjVal? "app"
  let tbl := methodUnion (← flatMethods appJ [])
  let mut outs : List Json := []
  for r in (← jarr c "reqs").toList do
    let m ← jstr r "m"
    let p ← jhex r "p"
    let acrm : Option Bytes := match jopt r "acrm" with | some (.str s) => some (toBytes s) | _ => none
    let acrh : Option Bytes := match jopt r "acrh" with | some (.str s) => some (toBytes s) | _ => none
    let segs := Ohkami.segments (Ohkami.normalize p)
    let fuel := segs.length + 40
    let inner : Except String Inner ← (do
      if m == "OPTIONS" then
        let (app, _) ← optionsApp appJ 0 [] tbl
        match build app with
        | none => throw "unmodelled: OPTIONS tree refused"
        | some t =>
          match (searchP fuel (finalize true fuel t false) segs []).2.1 with
          | some i => pure (.ok (defaultOptions (((tbl[i]?.map (·.2)).getD []).map toBytes) acrm))
          | none => pure (.ok ⟨404, none, none, false⟩)
      else
        let m' := if m == "HEAD" then "GET" else m
        let (app, _, _, _) ← DrvC01.appOf m' appJ 0
        match build app with
        | none => throw "unmodelled: tree refused"
        | some t =>
          match (searchP fuel (finalize true fuel t false) segs []).2.1 with
          | some _ => pure (.ok ⟨200, none, none, m != "HEAD"⟩)
          | none => pure (.ok ⟨404, none, none, false⟩))
    let o := bite pol (m == "OPTIONS") acrh (← inner)
    outs := outs ++ [Json.mkObj [("status", o.status), ("acao", optJ o.acao), ("acac", optJ o.acac), ("aceh", optJ o.aceh), ("acma", optJ o.acma),
      ("acah", optJ o.acah), ("acam", optJ o.acam), ("vary", optJ o.vary), ("has_body", o.hasBody)]]
  return Json.mkObj [("id", j.getObjValD "id"), ("model", Json.mkObj [("reqs", Json.arr outs.toArray)])]

end DrvC14
