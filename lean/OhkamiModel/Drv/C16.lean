import OhkamiModel.Drv.Common
import OhkamiModel.M.Derive
/-! C16 driver.
  {"kind":"case","rule","ident","field"}  -> {"macro": text | {"panic":true}, "serde": text | {"panic":true}}
  {"kind":"derive","def": <abstract definition>} -> {"macro": shape | {"panic":true}, "serde": keys / names / wires}
  {"kind":"catalogue",..} -> {"model": null}   (values are judged against the real schema by the orchestrator) -/
open Lean Ohkami.Derive Drv

namespace DrvC16

def str (s : Str) : Json := Json.str (String.ofList s)
def ascii (s : String) : Bool := s.toList.all fun c => c.toNat < 128

def optStr : Option Str → Json
  | some s => str s
  | none => Json.mkObj [("panic", true)]

partial def schJ : Sch → Json
  | .obj ps fl => Json.mkObj [("obj", Json.arr (ps.map fun p => Json.mkObj [("name", str p.1), ("required", p.2.1), ("schema", schJ p.2.2)]).toArray),
                              ("flat", Json.arr (fl.map fun x => match schJ x.2 with | .obj kvs => if x.1 then Json.obj (kvs.insert "optional" (Json.bool true)) else Json.obj kvs | j => j).toArray)]
  | .enm ns => Json.mkObj [("enum", Json.arr (ns.map str).toArray)]
  | .oneOf ss => Json.mkObj [("oneOf", Json.arr (ss.map schJ).toArray)]
  | .anyOf ss => Json.mkObj [("anyOf", Json.arr (ss.map schJ).toArray)]
  | .arr s => Json.mkObj [("array", schJ s)]
  | .ty t => Json.mkObj [("ty", t)]
  | .withFn => Json.mkObj [("with", true)]
  | .extend b n s => Json.mkObj [("extend", schJ b), ("name", str n), ("schema", schJ s)]

def jb (j : Json) (k : String) : Bool := match j.getObjVal? k with | .ok (.bool b) => b | _ => false
def jos (j : Json) (k : String) : Option Str := match jopt j k with | some (.str s) => some s.toList | _ => none
def jrule (j : Json) (k : String) : Except String (Option Rule) :=
  match jopt j k with
  | some (.str s) => match Rule.ofString? s with | some r => pure (some r) | none => throw s!"unknown rule {s}"
  | _ => pure none

def field (j : Json) : Except String Field := do
  return { ident := (← jstr j "ident").toList, rename := jos j "rename", skip := jb j "skip", skipSer := jb j "skip_ser", skipDe := jb j "skip_de",
           dflt := jb j "default", skipIf := jb j "skip_if", flatten := jb j "flatten", withFn := jb j "with", option := jb j "option",
           ty := ← jstr j "ty", inner := ← jstr j "inner" }

def fields (j : Json) : Except String Fields := do
  match j.getObjVal? "named", j.getObjVal? "unnamed" with
  | .ok (.arr a), _ => return .named (← a.toList.mapM field)
  | _, .ok (.arr a) => return .unnamed (← a.toList.mapM field)
  | _, _ => return .unit

def variant (j : Json) : Except String Variant := do
  return { ident := (← jstr j "ident").toList, rename := jos j "rename", renameAll := ← jrule j "rename_all", skip := jb j "skip", skipSer := jb j "skip_ser",
           skipDe := jb j "skip_de", fields := ← fields (j.getObjValD "fields") }

def fieldsAscii : Fields → Bool
  | .named fs | .unnamed fs => fs.all fun f => f.ident.all (·.toNat < 128)
  | .unit => true

def keysJ (ks : Option (List (Str × Bool))) : Json :=
  match ks with
  | none => Json.mkObj [("panic", true)]
  | some ks => Json.arr (ks.map fun k => Json.arr #[str k.1, k.2]).toArray

def wireJ : Option Serde.Wire → Json
  | none => Json.mkObj [("panic", true)]
  | some (.bare t) => Json.mkObj [("bare", str t)]
  | some (.keyed t) => Json.mkObj [("keyed", str t)]
  | some (.inline t tag) => Json.mkObj [("inline", Json.arr #[str t, str tag])]
  | some (.tagOnly t tag) => Json.mkObj [("tagOnly", Json.arr #[str t, str tag])]
  | some (.adjacent t tag c) => Json.mkObj [("adjacent", Json.arr #[str t, str tag, str c])]
  | some .content => Json.str "content"

def runCase (j : Json) : Except String Json := do
  let c ← j.getObjVal? "case"
  let id := j.getObjValD "id"
  let kind ← jstr c "kind"
  if kind == "catalogue" || kind == "count" then return Json.mkObj [("id", id), ("model", Json.null)]
  let unmodelled := Json.mkObj [("id", id), ("error", "unmodelled: non-ASCII identifier")]
  if kind == "case" then
    if !ascii (← jstr c "ident") then return unmodelled
    let some r := Rule.ofString? (← jstr c "rule") | return Json.mkObj [("id", id), ("model", Json.mkObj [("macro", "unknown-rule"), ("serde", "unknown-rule")])]
    let ident := (← jstr c "ident").toList
    let isField ← jbool c "field"
    let m := if isField then Macro.applyField r ident else Macro.applyVariant r ident
    let s := if isField then Serde.applyField r ident else Serde.applyVariant r ident
    return Json.mkObj [("id", id), ("model", Json.mkObj [("macro", optStr m), ("serde", optStr s)])]
  let d ← c.getObjVal? "def"
  let dk ← jstr d "kind"
  if dk == "struct" then
    let fs ← fields (d.getObjValD "fields")
    if !fieldsAscii fs then return unmodelled
    let sd : StructDef := { renameAll := ← jrule d "rename_all", cdefault := jb d "default", fields := fs }
    let m := match Macro.schemaOfFields sd.renameAll sd.cdefault sd.fields with | some s => schJ s | none => Json.mkObj [("panic", true)]
    let s := match fs with
      | .named l => Json.mkObj [("keys", keysJ (Serde.keys sd.renameAll sd.cdefault l))]
      | _ => Json.null
    return Json.mkObj [("id", id), ("model", Json.mkObj [("macro", m), ("serde", s)])]
  else
    let vs ← (← jarr d "variants").toList.mapM variant
    if !(vs.all fun v => v.ident.all (·.toNat < 128) && fieldsAscii v.fields) then return unmodelled
    let e : EnumDef := { renameAll := ← jrule d "rename_all", renameAllFields := ← jrule d "rename_all_fields", tag := jos d "tag", content := jos d "content",
                         untagged := jb d "untagged", variants := vs }
    let m := match Macro.schemaOfVariants e with | some s => schJ s | none => Json.mkObj [("panic", true)]
    let s := if vs.all (·.fields.isUnit) && e.tag.isNone && !e.untagged then Json.mkObj [("names", match Serde.unitNames e with | some ns => Json.arr (ns.map str).toArray | none => Json.mkObj [("panic", true)])]
      else Json.mkObj [("wires", Json.arr ((vs.filter fun v => !(v.skip || v.skipSer)).map fun v =>
        Json.mkObj [("wire", wireJ (Serde.wire e v)),
                    ("keys", match v.fields with | .named l => keysJ (Serde.keys (Serde.variantFieldRule e v) false l) | _ => Json.null)]).toArray)]
    return Json.mkObj [("id", id), ("model", Json.mkObj [("macro", m), ("serde", s)])]
end DrvC16
