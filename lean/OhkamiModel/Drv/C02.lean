import OhkamiModel.Drv.Common
import OhkamiModel.M.HttpObs
/-! C02 driver: first-read bytes (+ what the stream still holds) -> outcome and the full observation record. -/
open Lean Ohkami Ohkami.Http Drv

namespace DrvC02

def optHex : Option Bytes → Json | some b => toHex b | none => Json.null

def runCase (j : Json) : Except String Json := do
  let c ← j.getObjVal? "case"
  let first ← jhex c "first"
  let more ← jhex c "more"
  let names ← jarr c "names"
  let out : Json ← match parse first more with
    | .close => pure (Json.mkObj [("outcome", "close")])
    | .reject s => pure (Json.mkObj [("outcome", "reject"), ("status", s)])
    | .panic s => pure (Json.mkObj [("outcome", "panic"), ("site", s)])
    | .ok p =>
      let gets ← names.toList.mapM fun n => do
        let nm := fromHex (← n.getStr?)
        pure (Json.arr #[toHex nm, optHex (getHeader p nm)])
      let stds := (Gen.reqHeaderNames.zipIdx.filterMap fun (nm, k) =>
        match getStd p k with
        | some v => some (Json.arr #[Json.str nm.1, toHex v])
        | none => none)
      pure (Json.mkObj [("outcome", "ok"), ("method", p.method), ("path", toHex (pathStr p)),
        ("query", Json.arr ((queryPairs (p.query.getD [])).map fun kv => Json.arr #[toHex kv.1, toHex kv.2]).toArray),
        ("std", Json.arr stds.toArray), ("get", Json.arr gets.toArray), ("payload", optHex p.payload)])
  return Json.mkObj [("id", j.getObjValD "id"), ("model", out)]

end DrvC02
