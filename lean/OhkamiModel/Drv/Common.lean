import Lean.Data.Json
import OhkamiModel.Basic
/-! Shared by the line-protocol drivers: hex, JSON helpers. (No model logic here.) -/
open Lean

namespace Drv

def toBytes (s : String) : Bytes := s.toUTF8.toList
def hexDigit (n : Nat) : Char := if n < 10 then Char.ofNat (48 + n) else Char.ofNat (87 + n)
def toHex (bs : Bytes) : String := String.ofList (bs.flatMap fun b => [hexDigit (b.toNat / 16), hexDigit (b.toNat % 16)])
def unhex1 (c : Char) : Nat := if c.isDigit then c.toNat - 48 else c.toNat - 87
def fromHex (s : String) : Bytes :=
  let rec go : List Char → Bytes
    | a :: b :: rest => (unhex1 a * 16 + unhex1 b).toUInt8 :: go rest
    | _ => []
  go s.toList

def jstr (j : Json) (k : String) : Except String String := do (← j.getObjVal? k).getStr?
def jnat (j : Json) (k : String) : Except String Nat := do (← j.getObjVal? k).getNat?
def jarr (j : Json) (k : String) : Except String (Array Json) := do (← j.getObjVal? k).getArr?
def jhex (j : Json) (k : String) : Except String Bytes := do return fromHex (← jstr j k)
def jbool (j : Json) (k : String) : Except String Bool := do (← j.getObjVal? k).getBool?
def jopt (j : Json) (k : String) : Option Json :=
  match j.getObjVal? k with
  | .ok .null => none
  | .ok v => some v
  | .error _ => none

def hexJ (bs : Bytes) : Json := Json.str (toHex bs)

end Drv
