import OhkamiModel.Drv.Common
import OhkamiModel.TimeRender
import OhkamiModel.M.Num
/-! C20 driver.  Cases: {"t": n} | {"itoa": "n"} | {"hex": "n"} | {"bulk_t": [from, to, stride, sec_of_day]}
(bulk answers are an FNV-1a-64 digest of the concatenated outputs, so that all 2.9 million day numbers can be compared). -/
open Lean Ohkami.Time Ohkami.Num Drv

namespace DrvC20

def renderStr (t : Nat) : List UInt8 :=
  match render (fields t) with
  | .ok bs => bs
  | .ub s => toBytes ("UB " ++ s)

def specStr (t : Nat) : List UInt8 := imfSpec (fields t)

def fnv (h : UInt64) (bs : List UInt8) : UInt64 := bs.foldl (fun h b => (h ^^^ b.toUInt64) * 1099511628211) h

def bulk (f : Nat → List UInt8) (frm to stride sod : Nat) : UInt64 := Id.run do
  let mut h : UInt64 := 14695981039346656037
  let mut d := frm
  while d < to do
    h := fnv h (f (d * 86400 + sod))
    d := d + stride
  return h

def natOfStr (j : Json) (k : String) : Except String Nat := do
  match (← jstr j k).toNat? with
  | some n => pure n
  | none => throw "unmodelled number"

def runCase (j : Json) : Except String Json := do
  let c ← j.getObjVal? "case"
  let id := j.getObjValD "id"
  match jopt c "t" with
  | some _ =>
    let t ← jnat c "t"
    return Json.mkObj [("id", id), ("model", Json.mkObj [("s", hexJ (renderStr t))]), ("spec", Json.mkObj [("s", hexJ (specStr t))])]
  | none =>
  match jopt c "itoa" with
  | some _ =>
    let n ← natOfStr c "itoa"
    return Json.mkObj [("id", id), ("model", Json.mkObj [("s", hexJ ((itoaGen n).map fun q => (48 + q).toUInt8))])]
  | none =>
  match jopt c "hex" with
  | some _ =>
    let n ← natOfStr c "hex"
    return Json.mkObj [("id", id), ("model", Json.mkObj [("s", match hexizedGen n with | some l => hexJ (l.map Nat.toUInt8) | none => Json.str "UB")])]
  | none =>
    let a ← jarr c "bulk_t"
    let g (i : Nat) : Except String Nat := (a.getD i Json.null).getNat?
    let h := bulk renderStr (← g 0) (← g 1) (← g 2) (← g 3)
    return Json.mkObj [("id", id), ("model", Json.mkObj [("fnv", toString h.toNat)])]

end DrvC20
