import OhkamiModel.Drv.Common
import OhkamiModel.M.Response
import OhkamiModel.M.SetCookie
import OhkamiModel.M.Framing
import OhkamiModel.GenResHeaders
import OhkamiModel.GenStatus
/-! C03 driver: the executable model of `Response` behind the JSON line protocol.
The configuration (`Cfg`) is read off the regenerated tables. -/
open Lean Ohkami Ohkami.Response Drv

namespace DrvC03

def keyOf (variant : String) : Option Nat := (Gen.resHeaderNames.map (·.1)).idxOf? variant
def key! (v : String) : Nat := (keyOf v).getD 0

def statusLine (code : Nat) : Bytes :=
  match Gen.statusTable.find? (·.1 = code) with
  | some (_, _, msg) => toBytes (Gen.statusLinePrefix ++ msg ++ "\r\n")
  | none => []

def cfg : Cfg where
  names := Gen.resHeaderNames.map fun kv => toBytes kv.2
  kCL := key! "ContentLength"
  kCT := key! "ContentType"
  kDate := key! "Date"
  line := statusLine

def cookieOf (name value : Bytes) (d : Json) : Except String SetCookie.Cookie := do
  let hexOpt (k : String) : Except String (Option Bytes) :=
    match jopt d k with | none => pure none | some v => do pure (some (fromHex (← v.getStr?)))
  let natOpt (k : String) : Except String (Option Nat) :=
    match jopt d k with | none => pure none | some v => do pure (some (← v.getNat?))
  let boolD (k : String) : Bool := match jopt d k with | some (.bool b) => b | _ => false
  let ss ← match jopt d "same_site" with
    | none => pure none
    | some v => do
      match (← v.getStr?) with
      | "Strict" => pure (some SetCookie.SameSite.strict)
      | "Lax" => pure (some SetCookie.SameSite.lax)
      | "None" => pure (some SetCookie.SameSite.none)
      | s => throw s!"unmodelled SameSite {s}"
  return { name, value, expires := ← hexOpt "expires", maxAge := ← natOpt "max_age", domain := ← hexOpt "domain",
           path := ← hexOpt "path", secure := boolD "secure", httpOnly := boolD "http_only", sameSite := ss }

def std (v : String) : Except String Nat :=
  match keyOf v with | some k => pure k | none => throw s!"unmodelled header {v}"

def opOf (j : Json) : Except String ROp := do
  let arr ← j.getArr?
  let tag ← (arr.getD 0 Json.null).getStr?
  let s (i : Nat) : Except String String := (arr.getD i Json.null).getStr?
  match tag with
  | "set" | "sset" => return .h (.insert (← std (← s 1)) (fromHex (← s 2)))
  | "remove" => return .h (.remove (← std (← s 1)))
  | "append" => return .h (.append (← std (← s 1)) (fromHex (← s 2)))
  | "xset" => return .x (.set (fromHex (← s 1)) (fromHex (← s 2)))
  | "xremove" => return .x (.remove (fromHex (← s 1)))
  | "xappend" => return .x (.append (fromHex (← s 1)) (fromHex (← s 2)))
  | "cookie" => return .h (.cookie (SetCookie.build (← cookieOf (fromHex (← s 1)) (fromHex (← s 2)) (arr.getD 3 Json.null))))
  | "text" => return .payload (toBytes "text/plain; charset=UTF-8") (fromHex (← s 1))
  | "html" => return .payload (toBytes "text/html; charset=UTF-8") (fromHex (← s 1))
  | "json" => return .payload (toBytes "application/json") (fromHex (← s 1))
  | "payload" => return .payload (fromHex (← s 1)) (fromHex (← s 2))
  | "drop" => return .drop
  | t => throw s!"unmodelled op {t}"

/-- the typed responders (`typed::status::X(body)`, `X`, `X::at(location)`) are what they are defined as: `Response::OK().with_payload(CONTENT_TYPE, body)`
    under the status `X` (which is the status of the case), nothing for `()` and the no-value statuses, `Location` for a redirect -/
def opsOf (j : Json) : Except String (List ROp) := do
  let arr ← j.getArr?
  let tag ← (arr.getD 0 Json.null).getStr?
  let s (i : Nat) : Except String String := (arr.getD i Json.null).getStr?
  if tag == "typed" then
    match (← s 1) with
    | "string" | "str" => return [.payload (toBytes "text/plain; charset=UTF-8") (fromHex (← s 3))]
    | "html" => return [.payload (toBytes "text/html; charset=UTF-8") (fromHex (← s 3))]
    | "json" => return [.payload (toBytes "application/json") (fromHex (← s 3))]
    | "unit" | "bare" => return []
    | "redirect" => return [.h (.insert (← std "Location") (fromHex (← s 3)))]
    | k => throw s!"unmodelled typed responder {k}"
  else return [← opOf j]

/-- the framing automaton's view of an operation (`Ohkami.Framing`): the body setters, `drop_content`, `set_stream`; everything else leaves the framing alone -/
def framingOps (j : Json) : Except String (List Framing.Op) := do
  let arr ← j.getArr?
  let tag ← (arr.getD 0 Json.null).getStr?
  let s (i : Nat) : Except String String := (arr.getD i Json.null).getStr?
  match tag with
  | "text" | "html" | "json" => return [.payload (fromHex (← s 1)).length]
  | "payload" => return [.payload (fromHex (← s 2)).length]
  | "drop" => return [.drop]
  | "stream" => return [.stream]
  | "typed" =>
    match (← s 1) with
    | "string" | "str" | "html" | "json" => return [.payload (fromHex (← s 3)).length]
    | _ => return []
  | _ => return []

def framingJson (s : Framing.St) : Json :=
  Json.mkObj [("cl", match s.cl with | some n => Json.num n | none => Json.null), ("te", s.te),
    ("content", match s.content with | .none => "none" | .payload _ => "payload" | .stream => "stream")]

def runCase (j : Json) : Except String Json := do
  let c ← j.getObjVal? "case"
  let status ← jnat c "status"
  let date ← jstr c "date"
  let opsJ := (← jarr c "ops").toList
  let fops := (← opsJ.mapM framingOps).flatten
  let framing := Json.mkObj [("get", framingJson (Framing.build status fops false)), ("head", framingJson (Framing.build status fops true))]
  let hasStream := opsJ.any fun o => (o.getArr?.toOption.bind fun a => (a.getD 0 Json.null).getStr?.toOption) == some "stream"
  if hasStream then          -- the byte-level model has no stream content: only the framing is predicted
    return Json.mkObj [("id", (j.getObjValD "id")), ("model", Json.mkObj [("framing", framing)])]
  let ops := (← opsJ.mapM opsOf).flatten
  let fin := build cfg status (toBytes date) ops
  return Json.mkObj [("id", (j.getObjValD "id")),
    ("model", Json.mkObj [("wire", toHex (render cfg fin)), ("declared", declared cfg fin), ("framing", framing)])]

end DrvC03
