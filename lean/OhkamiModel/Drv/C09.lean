import OhkamiModel.Drv.Common
import OhkamiModel.P.SerdePrims
import OhkamiModel.M.HttpObs
/-! C08/C09 driver: the URL-encoded reader (`decode`) and writer (`encode`) models behind the JSON line protocol.
(`partial` here only concerns the JSON (de)serialisation of type descriptors and values, not the model.) -/
open Lean Ohkami Ohkami.Serde Drv
open Ohkami.Serde.Concrete

namespace DrvC09

partial def tyOf (j : Json) : Except String Ty := do
  match j with
  | .str "bool" => pure .bool | .str "char" => pure .char | .str "str" => pure .str | .str "string" => pure .string
  | .str "unit" => pure .unit
  | _ =>
    if let .ok v := j.getObjVal? "uint" then return .uint (← v.getNat?)
    if let .ok v := j.getObjVal? "sint" then return .sint (← v.getNat?)
    if let .ok v := j.getObjVal? "option" then return .option (← tyOf v)
    if let .ok v := j.getObjVal? "newtype" then return .newtype (← tyOf v)
    if let .ok v := j.getObjVal? "seq" then return .seq (← tyOf v)
    if let .ok v := j.getObjVal? "map" then return .map .string (← tyOf v)
    if let .ok v := j.getObjVal? "enum" then return .unitEnum ((← v.getArr?).toList.map fun x => (x.getStr?.toOption.getD "").toUTF8.toList)
    if let .ok v := j.getObjVal? "struct" then
      let fs ← (← v.getArr?).toList.mapM fun f => do
        let a ← f.getArr?
        pure ((← (a.getD 0 Json.null).getStr?).toUTF8.toList, ← tyOf (a.getD 1 Json.null), (a.getD 2 Json.null).getBool?.toOption.getD false)
      return .struct fs
    throw s!"bad type {j.compress}"

partial def valJson : Value → Json
  | .bool b => Json.mkObj [("b", b)]
  | .int z => Json.mkObj [("i", toString z)]
  | .floatText t => Json.mkObj [("f", toHex t)]
  | .char c => Json.mkObj [("c", c)]
  | .str s => Json.mkObj [("s", toHex s)]
  | .bytes s => Json.mkObj [("y", toHex s)]
  | .none => "none" | .unit => "unit" | .defaulted => "default"
  | .some v => Json.mkObj [("some", valJson v)]
  | .newtype v => Json.mkObj [("nt", valJson v)]
  | .seq vs => Json.mkObj [("seq", Json.arr (vs.map valJson).toArray)]
  | .map kvs => Json.mkObj [("map", Json.arr (kvs.map fun kv => Json.arr #[valJson kv.1, valJson kv.2]).toArray)]
  | .struct fs => Json.mkObj [("struct", Json.arr (fs.map fun nv => Json.arr #[Json.str (String.fromUTF8! (ByteArray.mk nv.1.toArray)), valJson nv.2]).toArray)]
  | .variant n => Json.mkObj [("var", toHex n)]

partial def valOf (j : Json) : Except String Value := do
  match j with
  | .str "none" => pure .none | .str "unit" => pure .unit
  | _ =>
    if let .ok v := j.getObjVal? "b" then return .bool (← v.getBool?)
    if let .ok v := j.getObjVal? "i" then return .int ((← v.getStr?).toInt?.getD 0)
    if let .ok v := j.getObjVal? "c" then return .char (← v.getNat?)
    if let .ok v := j.getObjVal? "s" then return .str (fromHex (← v.getStr?))
    if let .ok v := j.getObjVal? "var" then return .variant (fromHex (← v.getStr?))
    if let .ok v := j.getObjVal? "some" then return .some (← valOf v)
    if let .ok v := j.getObjVal? "nt" then return .newtype (← valOf v)
    if let .ok v := j.getObjVal? "seq" then return .seq (← (← v.getArr?).toList.mapM valOf)
    if let .ok v := j.getObjVal? "map" then
      return .map (← (← v.getArr?).toList.mapM fun kv => do pure (← valOf (kv.getArrVal? 0 |>.toOption.getD Json.null), ← valOf (kv.getArrVal? 1 |>.toOption.getD Json.null)))
    if let .ok v := j.getObjVal? "struct" then
      return .struct (← (← v.getArr?).toList.mapM fun kv => do
        pure (((kv.getArrVal? 0 |>.toOption.getD Json.null).getStr?.toOption.getD "").toUTF8.toList, ← valOf (kv.getArrVal? 1 |>.toOption.getD Json.null)))
    throw s!"bad value {j.compress}"

def outJson (o : Outcome (Value × De)) : Json := match o with
  | .ok (v, d) => if d.input.isEmpty then Json.mkObj [("outcome", "ok"), ("value", valJson v)] else Json.mkObj [("outcome", "err")]
  | .err _ => Json.mkObj [("outcome", "err")]
  | .panic s => Json.mkObj [("outcome", "panic"), ("site", s)]
  | .ub s => Json.mkObj [("outcome", "ub"), ("site", s)]
  | .unmodelled => Json.mkObj [("outcome", "unmodelled")]

-- value case: model of `to_string` then model of `from_bytes`; `flag` selects the sequence writer (F9d)
def runSer (j c : Json) : Except String Json := do
  let ty ← tyOf (← c.getObjVal? "ty")
  let v ← valOf (← c.getObjVal? "value")
  let flag := (c.getObjValD "firstFlag").getBool?.toOption.getD true
  match encode flag v with
  | .error _ => return Json.mkObj [("id", j.getObjValD "id"), ("model", Json.mkObj [("outcome", "ser-err")])]
  | .ok text =>
    let back := outJson (decode prims false (text.length + 20) ty ⟨text, .key⟩)
    let same := back.getObjValD "value" |>.compress |> (· == (valJson v).compress)
    return Json.mkObj [("id", j.getObjValD "id"), ("model", Json.mkObj [("outcome", "ok"), ("text", toHex text), ("back", back), ("same", same), ("unamb", unamb flag v), ("welltyped", wellTyped Http.validUtf8 ty v)])]

def runCase (j : Json) : Except String Json := do
  let c ← j.getObjVal? "case"
  -- floats: how Rust prints an f32 / f64 is not modelled; the round trip of such values is judged on the implementation alone
  if let .ok (.bool true) := c.getObjVal? "nomodel" then return Json.mkObj [("id", j.getObjValD "id"), ("model", Json.mkObj [("nomodel", true)])]
  if let .ok q := c.getObjVal? "query" then
    let ps := Http.queryPairs (fromHex (← q.getStr?))
    return Json.mkObj [("id", j.getObjValD "id"), ("model", Json.mkObj [("pairs", Json.arr (ps.map fun kv => Json.arr #[toHex kv.1, toHex kv.2]).toArray)])]
  if let .ok _ := c.getObjVal? "value" then return ← runSer j c
  let ty ← tyOf (← c.getObjVal? "ty")
  let input := fromHex (← (← c.getObjVal? "input").getStr?)
  let out : Json := match decode prims false (input.length + 20) ty ⟨input, .key⟩ with
    | .ok (v, d) => if d.input.isEmpty then Json.mkObj [("outcome", "ok"), ("value", valJson v)] else Json.mkObj [("outcome", "err")]
    | .err _ => Json.mkObj [("outcome", "err")]
    | .panic s => Json.mkObj [("outcome", "panic"), ("site", s)]
    | .ub s => Json.mkObj [("outcome", "ub"), ("site", s)]
    | .unmodelled => Json.mkObj [("outcome", "unmodelled")]
  return Json.mkObj [("id", j.getObjValD "id"), ("model", out)]
end DrvC09
