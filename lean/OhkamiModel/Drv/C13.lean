import OhkamiModel.Drv.Common
import OhkamiModel.P.BasicAuthProofs
import OhkamiModel.Http
/-! C13 driver: `BasicAuth::fore` on a pair list and an optional Authorization value -/
open Lean Ohkami Ohkami.BasicAuth Drv

namespace DrvC13
def runCase (j : Json) : Except String Json := do
  let c ← j.getObjVal? "case"
  let pairs ← (← jarr c "pairs").toList.mapM fun p => do
    let a ← p.getArr?
    pure (⟨fromHex (← (a.getD 0 Json.null).getStr?), fromHex (← (a.getD 1 Json.null).getStr?)⟩ : Pair)
  let auth : Option Bytes := match jopt c "auth" with
    | some (.str s) => some (fromHex s)
    | _ => none
  let out := match fore Http.validUtf8 pairs auth with
    | .admit => Json.mkObj [("ran", true), ("status", 200), ("challenge", false)]
    | .unauthorized => Json.mkObj [("ran", false), ("status", 401), ("challenge", true)]
    | .panic => Json.mkObj [("outcome", "panic")]
  return Json.mkObj [("id", j.getObjValD "id"), ("model", out)]
end DrvC13
