import OhkamiModel.Drv.Common
import OhkamiModel.P.SseProofs
/-! C17 driver: a producer schedule -> the items `QueueStream` yields -> the chunked body `send` writes -/
open Lean Ohkami Ohkami.Sse Drv

namespace DrvC17
def runCase (j : Json) : Except String Json := do
  let c ← j.getObjVal? "case"
  if (jopt c "timed").isSome then throw "unmodelled: scenarios in real time (the model has no clock)"
  let sched ← (← jarr c "sched").toList.mapM fun s => do
    let ps ← (← jarr s "pushes").toList.mapM fun p => do pure (fromHex (← p.getStr?))
    pure (⟨ps, ← jbool s "ready"⟩ : PStep)
  let items := drain (sched.length + (allPushes sched).length + 1) ⟨[], false⟩ sched
  return Json.mkObj [("id", j.getObjValD "id"),
    ("model", Json.mkObj [("body", hexJ (body items)), ("items", Json.arr (items.map hexJ).toArray)])]
end DrvC17
