import OhkamiModel.Drv.C09
import OhkamiModel.Drv.C03
import OhkamiModel.M.Cookie
/-! C11 driver: {"kind": "struct", "ty": Ty, "input": hex} | {"kind": "iter", "input": hex} | {"kind": "setcookie", "name", "value", "dirs"} -/
open Lean Ohkami Ohkami.Serde Ohkami.Cookie Drv

namespace DrvC11

def optHex : Option Bytes → Json | some b => hexJ b | none => Json.null

def cookieJson (c : SetCookie.Cookie) : Json :=
  Json.mkObj [("name", hexJ c.name), ("value", hexJ c.value), ("expires", optHex c.expires), ("max_age", match c.maxAge with | some n => Json.num n | none => Json.null),
    ("domain", optHex c.domain), ("path", optHex c.path), ("secure", c.secure), ("http_only", c.httpOnly),
    ("same_site", match c.sameSite with | some .strict => "Strict" | some .lax => "Lax" | some .none => "None" | none => Json.null)]

def runCase (j : Json) : Except String Json := do
  let c ← j.getObjVal? "case"
  let id := j.getObjValD "id"
  match (← jstr c "kind") with
  | "struct" =>
    let ty ← DrvC09.tyOf (← c.getObjVal? "ty")
    let input ← jhex c "input"
    if !Http.validUtf8 input then return Json.mkObj [("id", id), ("model", Json.mkObj [("outcome", "not-utf8-input")])]
    match ty with
    | .struct fields =>
      let out := match fromStr fields input with
        | .ok fs => Json.mkObj [("outcome", "ok"), ("value", DrvC09.valJson (.struct fs))]
        | .err => Json.mkObj [("outcome", "err")]
      return Json.mkObj [("id", id), ("model", out)]
    | _ => throw "unmodelled: cookie target must be a struct"
  | "iter" =>
    let ps := iterCookies (← jhex c "input")
    return Json.mkObj [("id", id), ("model", Json.mkObj [("pairs", Json.arr (ps.map fun kv => Json.arr #[hexJ kv.1, hexJ kv.2]).toArray)])]
  | "setcookie" =>
    let ck ← DrvC03.cookieOf (← jhex c "name") (← jhex c "value") (← c.getObjVal? "dirs")
    let line := SetCookie.build ck
    return Json.mkObj [("id", id), ("model", Json.mkObj [("line", hexJ line),
      ("parsed", match fromRaw line with | some p => cookieJson p | none => Json.null)])]
  | k => throw s!"unmodelled kind {k}"

end DrvC11
