import OhkamiModel.Drv.C09
import OhkamiModel.Drv.C10
import OhkamiModel.Drv.C11
/-! C08 driver: dispatches each decoder kind to its model; kinds / target types that have no model answer `nomodel`
(the run then judges the implementation alone: value or error, UTF-8, inside). -/
open Lean Drv

namespace DrvC08
def runCase (j : Json) : Except String Json := do
  let c ← j.getObjVal? "case"
  let id := j.getObjValD "id"
  let nomodel := Json.mkObj [("id", id), ("model", Json.mkObj [("nomodel", true)])]
  match (← jstr c "kind") with
  | "url" => if (← jnat c "tid") ≥ 20 then return nomodel else DrvC09.runCase j
  | "cookie" =>
    let c' := c.setObjVal! "kind" "struct"
    DrvC11.runCase (Json.mkObj [("id", id), ("case", c')])
  | "multipart" => DrvC10.runCase j
  | _ => return nomodel
end DrvC08
