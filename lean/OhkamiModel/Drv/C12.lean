import OhkamiModel.Drv.Common
import OhkamiModel.P.Jwt
import OhkamiModel.M.B64Url
/-! C12 driver: `JWT::verified` with the parameters instantiated from the case:
`macs` (HMACs computed by Python's hmac), `json` (views of the decoded parts computed by Python's json), the pinned clock. -/
open Lean Ohkami Drv
open Ohkami.Jwt (Claim Alg Env verified)

namespace DrvC12

def optStr (j : Json) (k : String) : Except String (Option (Option Bytes)) :=
  match jopt j k with
  | none => pure none
  | some (.str "nonstr") => pure (some none)
  | some v => do pure (some (some (fromHex (← jstr v "s"))))

def claim (j : Json) (k : String) : Except String Claim :=
  match jopt j k with
  | none => pure .absent
  | some (.str _) => pure .other
  | some v => do pure (.num (← jbool v "neg") (← jnat v "n") (← jnat v "d"))

def viewOf (j : Json) : Except String Jwt.Json := do
  return { typ := ← optStr j "typ", cty := ← optStr j "cty", alg := ← optStr j "alg",
           nbf := ← claim j "nbf", exp := ← claim j "exp", iat := ← claim j "iat", payload := ← jnat j "id" }

def runCase (j : Json) : Except String Json := do
  let c ← j.getObjVal? "case"
  let alg ← match (← jstr c "alg") with
    | "HS256" => pure Alg.HS256 | "HS384" => pure Alg.HS384 | "HS512" => pure Alg.HS512
    | a => throw s!"unmodelled alg {a}"
  let secret ← jhex c "secret"
  let now ← jnat c "now"
  let isOptions := (← jstr c "method") == "OPTIONS"
  let auth : Option Bytes := match jopt c "auth" with | some (.str s) => some (fromHex s) | _ => none
  let macs ← c.getObjVal? "macs"
  let jsons ← c.getObjVal? "json"
  let oks ← c.getObjVal? "from_value"
  -- a look-up that misses makes the run `unmodelled` (the Python side did not foresee this input)
  let E : Env := {
    mac := fun _ _ input => match macs.getObjVal? (toHex input) with | .ok (.str m) => fromHex m | _ => [0],
    jsonParse := fun bs => match jsons.getObjVal? (toHex bs) with
      | .ok .null => none
      | .ok v => (viewOf v).toOption
      | .error _ => none,
    b64urlDec := B64Url.decode,
    fromValue := fun id => match oks.getObjVal? (toString id) with | .ok (.bool true) => some id | _ => none,
    now := now }
  let out := match verified E alg secret isOptions auth with
    | .admit p => Json.mkObj [("ran", true), ("status", 200), ("payload", p)]
    | .status code => Json.mkObj [("ran", false), ("status", code), ("payload", Json.null)]
  return Json.mkObj [("id", j.getObjValD "id"), ("model", out)]

end DrvC12
