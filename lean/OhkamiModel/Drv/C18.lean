import OhkamiModel.Drv.Common
import OhkamiModel.M.Shutdown
/-! C18 driver.  Cases:
  {"polls": [null | 0 | 1 | 2 | 3, ...]}  one entry per poll of `until_interrupt`; the number says where the (whole) interrupt
      handler runs relative to that poll: 0 before it, 1 between the CATCH load and the waker swap, 2 between the swap and the
      re-check, 3 after it returned; null = no interrupt around this poll (the next poll is then a reactor wake)
  {"wg": ["add" | "done" | "poll", ...]}  operations on a wait group -/
open Lean Ohkami.Shutdown2 Drv

namespace DrvC18

def runH (s : St) : St := ((step true s .handler).bind fun s => (step true s .handler).bind fun s => step true s .handler).getD s
def stepP (s : St) : St := (step true s .poller).getD s

/-- one poll, with the handler run at `at` ; returns the state when the poll has returned (pending or returnedNone) -/
def onePoll (s : St) (at_ : Option Nat) : St :=
  let s := if at_ = some 0 then runH s else s
  let s := stepP s                                           -- p1: load CATCH
  if s.ppc = .returnedNone then s else
  let s := if at_ = some 1 then runH s else s
  let s := stepP s                                           -- p2: publish the waker
  let s := if at_ = some 2 then runH s else s
  let s := stepP s                                           -- p3: re-check
  if s.ppc = .returnedNone then s else
  if at_ = some 3 then runH s else s

def runPolls : St → List (Option Nat) → List Json → List Json
  | _, [], acc => acc.reverse
  | s, a :: rest, acc =>
    if s.ppc = .returnedNone then acc.reverse else
    -- the task is polled because it was woken (by the handler) or by the reactor
    let s := if s.ppc = .pending then
        (if s.wakePending then stepP s else stepP ((step true s .reactor).getD s)) else s
    let s' := onePoll s a
    let o := Json.mkObj [("ready_none", s'.ppc == .returnedNone), ("woken", s'.wakePending)]
    runPolls s' rest (o :: acc)

def runCase (j : Json) : Except String Json := do
  let c ← j.getObjVal? "case"
  if (jopt c "howl").isSome then return Json.mkObj [("id", j.getObjValD "id"), ("model", Json.null)]      -- the real `howl` under a real signal: judged on the implementation alone
  match jopt c "wg" with
  | some w =>
    let ops ← (← w.getArr?).toList.mapM fun o => do
      match (← o.getStr?) with
      | "add" => pure WOp.add | "done" => pure WOp.done | "drop" => pure WOp.done | "poll" => pure WOp.poll
      | x => throw s!"unmodelled op {x}"
    return Json.mkObj [("id", j.getObjValD "id"), ("model", Json.mkObj [("polls", Json.arr ((wrun 0 ops).map Json.bool).toArray)])]
  | none =>
    let ps ← (← jarr c "polls").toList.mapM fun p => match p with
      | .null => pure none
      | v => do pure (some (← v.getNat?))
    return Json.mkObj [("id", j.getObjValD "id"), ("model", Json.mkObj [("polls", Json.arr (runPolls init ps []).toArray)])]

end DrvC18
