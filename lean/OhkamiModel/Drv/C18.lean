import OhkamiModel.Drv.Common
import OhkamiModel.M.Shutdown
import OhkamiModel.M.WaitGroup
/-! C18 driver.  Cases:
  {"polls": [null | 0 | 1 | 2 | 3, ...]}  one entry per poll of `until_interrupt`; the number says where the (whole) interrupt
      handler runs relative to that poll: 0 before it, 1 between the CATCH load and the waker swap, 2 between the swap and the
      re-check, 3 after it returned; null = no interrupt around this poll (the next poll is then a reactor wake);
      optional "conn": [bool, ...]: a connection is waiting to be accepted when that poll begins
  {"wg": ["add" | "done" | "drop" | "poll" | "poll@n", ...]}  operations on a wait group; poll@n: the oldest live session ends at the n-th touch of the waker inside that poll -/
open Lean Ohkami.Shutdown2 Drv

namespace DrvC18

def runH (s : St) : St := ((step true true s .handler).bind fun s => (step true true s .handler).bind fun s => step true true s .handler).getD s
def stepP (s : St) : St := (step true true s .poller).getD s

/-- one poll, with the handler run at `at` and, if `conn`, a connection waiting when the poll begins; returns the state when the poll has
    returned (pending, returnedNone, or p0 again: a connection was accepted) and whether it accepted -/
def onePoll (s : St) (at_ : Option Nat) (conn : Bool) : St × Bool :=
  let s := if at_ = some 0 then runH s else s
  let s := if conn then (step true true s .arrive).getD s else s
  let s := stepP s                                           -- p0: look at CATCH, poll `accept()`
  if s.ppc = .returnedNone then (s, false) else
  if s.ppc = .p0 then ((if at_ = some 3 then runH s else s), true) else
  let s := stepP s                                           -- p1: load CATCH
  if s.ppc = .returnedNone then (s, false) else
  let s := if at_ = some 1 then runH s else s
  let s := stepP s                                           -- p2: publish the waker
  let s := if at_ = some 2 then runH s else s
  let s := stepP s                                           -- p3: re-check
  if s.ppc = .returnedNone then (s, false) else
  ((if at_ = some 3 then runH s else s), false)

def runPolls : St → List (Option Nat × Bool) → List Json → List Json
  | _, [], acc => acc.reverse
  | s, (a, conn) :: rest, acc =>
    if s.ppc = .returnedNone then acc.reverse else
    -- the task is polled because it was woken (by the handler, by a connection) or by the reactor
    let s := if s.ppc = .pending then
        (if s.wakePending then stepP s else stepP ((step true true s .reactor).getD s)) else s
    let (s', accepted) := onePoll s a conn
    -- `woken`: the waker this poll used was woken during or after it (the harness clears its flag when the poll begins)
    let o := if conn then Json.mkObj [("ready_none", s'.ppc == .returnedNone), ("accepted", accepted), ("woken", s'.wakePending)]
      else Json.mkObj [("ready_none", s'.ppc == .returnedNone), ("woken", s'.wakePending)]
    runPolls s' rest (o :: acc)

def runCase (j : Json) : Except String Json := do
  let c ← j.getObjVal? "case"
  if (jopt c "howl").isSome then return Json.mkObj [("id", j.getObjValD "id"), ("model", Json.null)]      -- the real `howl` under a real signal: judged on the implementation alone
  match jopt c "wg" with
  | some w =>
    -- the wait group with its wake-up protocol (`Ohkami.WG`): each poll answers ready / woken / whether the session ending inside it fired
    let ops ← (← w.getArr?).toList.mapM fun o => do
      match (← o.getStr?) with
      | "add" => pure Ohkami.WG.Op.add | "done" => pure Ohkami.WG.Op.done | "drop" => pure Ohkami.WG.Op.done | "poll" => pure (Ohkami.WG.Op.poll 0)
      | x => match (x.dropPrefix? "poll@").bind (·.toString.toNat?) with
        | some n => pure (Ohkami.WG.Op.poll n)
        | none => throw s!"unmodelled op {x}"
    let (polls, fw) := Ohkami.WG.run ⟨0, .idle, false⟩ ops []
    return Json.mkObj [("id", j.getObjValD "id"), ("model", Json.mkObj [
      ("polls", Json.arr (polls.map fun (r, wk, f) => Json.mkObj [("ready", r), ("woken", wk), ("fired", f)]).toArray), ("final_woken", fw)])]
  | none =>
    let ps ← (← jarr c "polls").toList.mapM fun p => match p with
      | .null => pure none
      | v => do pure (some (← v.getNat?))
    let conn : List Bool := match jopt c "conn" with
      | some (.arr a) => a.toList.map fun x => x.getBool?.toOption.getD false
      | _ => []
    let psc := ps.zipIdx.map fun (p, i) => (p, conn.getD i false)
    return Json.mkObj [("id", j.getObjValD "id"), ("model", Json.mkObj [("polls", Json.arr (runPolls init psc []).toArray)])]

end DrvC18
