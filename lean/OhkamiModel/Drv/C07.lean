import OhkamiModel.Drv.Common
import OhkamiModel.M.Extract
/-! C07 driver: {"ptys": ["u8"|...], "captures": [hex], "items": [{"kind": "body"|"query", "optional", "mime", "ctype": hex|null, "payload": hex|null, "decoded": hex|null}]} -/
open Lean Ohkami Ohkami.Extract Drv

namespace DrvC07
def ptyOf : String → Except String PTy
  | "u8" => pure (.uint 8) | "u16" => pure (.uint 16) | "u32" => pure (.uint 32) | "u64" => pure (.uint 64) | "usize" => pure (.uint 64)
  | "i8" => pure (.sint 8) | "i16" => pure (.sint 16) | "i32" => pure (.sint 32) | "i64" => pure (.sint 64) | "isize" => pure (.sint 64)
  | "String" => pure .string | "str" => pure .str | "Cow" => pure .cow
  | t => throw s!"unmodelled param type {t}"

def optHex (j : Json) (k : String) : Except String (Option Bytes) :=
  match jopt j k with | some (.str s) => pure (some (fromHex s)) | _ => pure none

def runCase (j : Json) : Except String Json := do
  let c ← j.getObjVal? "case"
  let ptys ← (← jarr c "ptys").toList.mapM fun x => do ptyOf (← x.getStr?)
  let captures ← (← jarr c "captures").toList.mapM fun x => do pure (fromHex (← x.getStr?))
  let items ← (← jarr c "items").toList.mapM fun it => do
    let decoded ← optHex it "decoded"
    let found : Found ← match (← jstr it "kind") with
      | "query" => pure (match decoded with | some e => Found.ok e | none => Found.err)      -- `Query<T>` always tries to parse the query string
      | _ => do pure (gate (toBytes (← jstr it "mime")) (← optHex it "ctype") (← optHex it "payload") fun _ => decoded)
    pure (⟨← jbool it "optional", found⟩ : Item)
  let out := match handle ptys captures items with
    | .status code => Json.mkObj [("ran", false), ("status", code)]
    | .ran ps vs => Json.mkObj [("ran", true), ("status", 200),
        ("params", Json.arr (ps.map fun p => match p with | .int z => Json.str s!"i:{z}" | .text t => Json.str ("s:" ++ toHex t)).toArray),
        ("items", Json.arr (vs.map fun v => match v with | some e => hexJ e | none => Json.null).toArray)]
  return Json.mkObj [("id", j.getObjValD "id"), ("model", out)]
end DrvC07
