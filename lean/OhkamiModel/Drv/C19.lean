import OhkamiModel.Drv.Common
import OhkamiModel.M.Dir
/-! C19 driver: {"tree": [{"path": [hex], "content": hex}], "mount": "/static", "omit": [str], "reqs": [hex]} -/
open Lean Ohkami Ohkami.Dir Drv

namespace DrvC19
def runCase (j : Json) : Except String Json := do
  let c ← j.getObjVal? "case"
  let files ← (← jarr c "tree").toList.mapM fun f => do
    let p ← (← jarr f "path").toList.mapM fun s => do pure (fromHex (← s.getStr?))
    pure (⟨p, ← jhex f "content"⟩ : FileEntry)
  let mount := (Ohkami.segments (Ohkami.normalize (toBytes (← jstr c "mount"))))
  let omits ← (← jarr c "omit").toList.mapM fun s => do pure (toBytes (← s.getStr?))
  let reqs ← (← jarr c "reqs").toList.mapM fun s => do pure (fromHex (← s.getStr?))
  let mut outs : List Json := []
  for p in reqs do
    match get mount omits files p with
    | .refused _ => return Json.mkObj [("id", j.getObjValD "id"), ("model", Json.mkObj [("startup", "refused")])]
    | .ok a => outs := outs ++ [Json.mkObj [("status", a.status), ("ctype", match a.ctype with | some t => hexJ t | none => Json.null), ("body", hexJ a.body)]]
  if reqs.isEmpty then
    match get mount omits files [47] with
    | .refused _ => return Json.mkObj [("id", j.getObjValD "id"), ("model", Json.mkObj [("startup", "refused")])]
    | .ok _ => pure ()
  return Json.mkObj [("id", j.getObjValD "id"), ("model", Json.mkObj [("reqs", Json.arr outs.toArray)])]
end DrvC19
