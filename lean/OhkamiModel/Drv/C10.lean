import OhkamiModel.Drv.Common
import OhkamiModel.M.Multipart
/-! C10 driver: {"fields": [[name, "text"|"optText"|"file"|"optFile"|"files", default?]], "input": hex} -/
open Lean Ohkami Ohkami.Multipart Drv

namespace DrvC10
def fileJ (f : FileV) : Json := Json.mkObj [("filename", hexJ f.filename), ("mimetype", hexJ f.mimetype), ("content", hexJ f.content)]
def valJ : Val → Json
  | .text t => Json.mkObj [("s", hexJ t)]
  | .none => "none"
  | .some v => Json.mkObj [("some", valJ v)]
  | .file f => Json.mkObj [("file", fileJ f)]
  | .seq l => Json.mkObj [("seq", Json.arr (l.map fileJ).toArray)]

def runCase (j : Json) : Except String Json := do
  let c ← j.getObjVal? "case"
  let fields ← (← jarr c "fields").toList.mapM fun f => do
    let a ← f.getArr?
    let ty ← match (← (a.getD 1 Json.null).getStr?) with
      | "text" => pure FTy.text | "optText" => pure FTy.optText | "file" => pure FTy.file | "optFile" => pure FTy.optFile | "files" => pure FTy.files
      | t => throw s!"unmodelled field type {t}"
    pure (toBytes (← (a.getD 0 Json.null).getStr?), ty, (a.getD 2 Json.null).getBool?.toOption.getD false)
  let input ← jhex c "input"
  let out := match fromBytes fields input with
    | some fs => Json.mkObj [("outcome", "ok"), ("value", Json.arr (fs.map fun nv => Json.arr #[hexJ nv.1, valJ nv.2]).toArray)]
    | none => Json.mkObj [("outcome", "err")]
  return Json.mkObj [("id", j.getObjValD "id"), ("model", out)]
end DrvC10
