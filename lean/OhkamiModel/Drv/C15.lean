import OhkamiModel.Drv.Common
import OhkamiModel.M.OpenApi
/-! C15 driver: {"app": App, "sigs": {"<handler id>": {"path": [type..], "query": [[name, type, required]..], "body": mime | null, "responses": [status..]}}}
   -> the entries of `document app`: path template, method, parameters (in / name / type / required), body, security, tags, responses -/
open Lean Ohkami.OpenApi Drv

namespace DrvC15

def str (s : Str) : Json := Json.str (String.ofList s)

def segs (route : String) : List Seg :=
  if route == "/" then [] else
    (route.splitOn "/").drop 1 |>.map fun s => if s.startsWith ":" then Seg.param (s.toList.drop 1) else Seg.lit s.toList

def fang (j : Json) : Except String Fang := do
  match (← jstr j "k") with
  | "plain" => pure .plain
  | "jwt" => pure .jwt
  | "basic" | "basic2" => pure .basic          -- `[BasicAuth; N]` documents itself as `BasicAuth` does
  | "key_header" => pure (.key "keyHeader".toList)
  | "key_query" => pure (.key "keyQuery".toList)
  | "key_cookie" => pure (.key "keyCookie".toList)
  | "tag" => pure (.tag ("t" ++ toString ((j.getObjValD "id").getNat?.toOption.getD 0)).toList)
  | k => throw s!"fang kind {k}"

def sigOf (sigs : Json) (k : Json) : Except String Sig := do
  let key := match k with | .num n => toString n.mantissa | _ => "?"
  let s ← sigs.getObjVal? key
  let query ← (← jarr s "query").toList.mapM fun q => do
    let a ← q.getArr?
    pure (⟨.query, (← (a.getD 0 Json.null).getStr?).toList, (← (a.getD 1 Json.null).getStr?).toList, ← (a.getD 2 Json.null).getBool?⟩ : Param)
  return { pathTys := ← (← jarr s "path").toList.mapM (fun t => do pure (← t.getStr?).toList),
           query := query,
           body := match jopt s "body" with | some (.str m) => some m.toList | _ => none,
           responses := ← (← jarr s "responses").toList.mapM (·.getNat?) }

def method (m : String) : Except String Method :=
  match m with
  | "GET" => pure .GET | "PUT" => pure .PUT | "POST" => pure .POST | "PATCH" => pure .PATCH | "DELETE" => pure .DELETE
  | m => throw s!"method {m}"

partial def app (sigs : Json) (j : Json) : Except String App := do
  let fangs ← (match j.getObjVal? "fangs" with | .ok (.arr a) => a.toList | _ => []).mapM fang
  let items ← jarr j "items"
  let mut routes : List RouteItem := []
  let mut mounts : List (List Seg × App) := []
  for it in items.toList do
    match it.getObjVal? "mount" with
    | .ok (.str m) => mounts := mounts ++ [(segs m, ← app sigs (it.getObjValD "app"))]
    | _ =>
      let ms ← match it.getObjVal? "methods" with
        | .ok (.obj kvs) => kvs.toList.mapM fun (m, k) => do pure (← method m, ← sigOf sigs k)
        | _ => throw "methods"
      let loc ← (match it.getObjVal? "local" with | .ok (.arr a) => a.toList | _ => []).mapM fang
      routes := routes ++ [⟨segs (← jstr it "route"), ms, loc⟩]
  return .mk fangs routes mounts

def methodName : Method → String
  | .GET => "get" | .PUT => "put" | .POST => "post" | .PATCH => "patch" | .DELETE => "delete"

def entryJ (e : Entry) : Json :=
  Json.mkObj [("path", str e.path), ("method", methodName e.method),
    ("parameters", Json.arr (e.operation.parameters.map fun p => Json.mkObj [("in", match p.kind with | .path => "path" | .query => "query"), ("name", str p.name), ("type", str p.ty), ("required", p.required)]).toArray),
    ("body", match e.operation.body with | some m => str m | none => Json.null),
    ("security", Json.arr (e.operation.security.map str).toArray),
    ("tags", Json.arr (e.operation.tags.map str).toArray),
    ("responses", Json.arr (e.operation.responses.map fun n => Json.num (JsonNumber.fromNat n)).toArray)]

def runCase (j : Json) : Except String Json := do
  let c ← j.getObjVal? "case"
  let a ← app (← c.getObjVal? "sigs") (← c.getObjVal? "app")
  return Json.mkObj [("id", j.getObjValD "id"), ("model", Json.mkObj [("entries", Json.arr ((document a).map entryJ).toArray)])]
end DrvC15
