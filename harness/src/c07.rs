//! C07 executor: a catalogue of handler signatures (typed path params, Query / JSON / URLEncoded / Text extractors, Option<_>) behind routes
//! and a mount; each handler records the typed values it received.  One request per case, given as raw target + headers + body.
use crate::apps;
use crate::util::*;
use ohkami::prelude::*;
use ohkami::format::{Query, JSON, URLEncoded, Text, Multipart, File};
use ohkami::openapi::Schema;
use serde::Deserialize;
use serde_json::{json, Value};
use std::borrow::Cow;
use std::sync::Mutex;

static SEEN: Mutex<Option<(Vec<String>, Vec<Option<String>>)>> = Mutex::new(None);
fn saw(params: Vec<String>, items: Vec<Option<String>>) -> &'static str { *SEEN.lock().unwrap() = Some((params, items)); "ran" }

#[derive(Deserialize, Schema)] struct B { x: i32, s: String }
#[derive(Deserialize, Schema)] struct Q { a: u32, b: Option<String>, #[serde(default)] t: Vec<u32> }
fn eb(b: &B) -> String { hex(format!("x={};s={}", b.x, hex(b.s.as_bytes())).as_bytes()) }
fn eq(q: &Q) -> String { hex(format!("a={};b={};t={}", q.a, q.b.as_ref().map(|s| hex(s.as_bytes())).unwrap_or_else(|| "-".into()), q.t.iter().map(|x| x.to_string()).collect::<Vec<_>>().join(".")).as_bytes()) }
// a query struct whose every field may be absent: a request without any query denotes the all-default value
#[derive(Deserialize, Schema)] struct QO { b: Option<String>, #[serde(default)] t: Vec<u32> }
fn eqo(q: &QO) -> String { hex(format!("b={};t={}", q.b.as_ref().map(|s| hex(s.as_bytes())).unwrap_or_else(|| "-".into()), q.t.iter().map(|x| x.to_string()).collect::<Vec<_>>().join(".")).as_bytes()) }
fn et(t: &str) -> String { hex(t.as_bytes()) }
// a multipart form: a text field, an optional file, any number of files
#[derive(Deserialize)] struct MF<'a> { title: String, #[serde(borrow)] icon: Option<File<'a>>, #[serde(borrow)] pics: Vec<File<'a>> }
impl Schema for MF<'_> { fn schema() -> impl Into<ohkami::openapi::schema::SchemaRef> { ohkami::openapi::object() } }
fn ef(f: &File) -> String { format!("{}/{}/{}", hex(f.filename.as_bytes()), hex(f.mimetype.as_bytes()), hex(f.content)) }
fn em(m: &MF) -> String { hex(format!("t={};i={};p={}", hex(m.title.as_bytes()), m.icon.as_ref().map(ef).unwrap_or_else(|| "-".into()), m.pics.iter().map(ef).collect::<Vec<_>>().join(",")).as_bytes()) }

macro_rules! int_handler { ($name:ident, $t:ty) => { async fn $name(a: $t) -> &'static str { saw(vec![format!("i:{a}")], vec![]) } } }
int_handler!(h_u8, u8); int_handler!(h_u16, u16); int_handler!(h_u32, u32); int_handler!(h_u64, u64); int_handler!(h_usize, usize);
int_handler!(h_i8, i8); int_handler!(h_i16, i16); int_handler!(h_i32, i32); int_handler!(h_i64, i64); int_handler!(h_isize, isize);
async fn h_string(a: String) -> &'static str { saw(vec![format!("s:{}", hex(a.as_bytes()))], vec![]) }
async fn h_str(a: &str) -> &'static str { saw(vec![format!("s:{}", hex(a.as_bytes()))], vec![]) }
async fn h_cow(a: Cow<'_, str>) -> &'static str { saw(vec![format!("s:{}", hex(a.as_bytes()))], vec![]) }
async fn h_two((a, b): (u8, String)) -> &'static str { saw(vec![format!("i:{a}"), format!("s:{}", hex(b.as_bytes()))], vec![]) }
async fn h_two2((a, b): (i64, &str)) -> &'static str { saw(vec![format!("i:{a}"), format!("s:{}", hex(b.as_bytes()))], vec![]) }
async fn h_query(Query(q): Query<Q>) -> &'static str { saw(vec![], vec![Some(eq(&q))]) }
async fn h_oquery(Query(q): Query<QO>) -> &'static str { saw(vec![], vec![Some(eqo(&q))]) }
async fn h_json(JSON(b): JSON<B>) -> &'static str { saw(vec![], vec![Some(eb(&b))]) }
async fn h_optjson(b: Option<JSON<B>>) -> &'static str { saw(vec![], vec![b.map(|JSON(b)| eb(&b))]) }
async fn h_form(URLEncoded(b): URLEncoded<B>) -> &'static str { saw(vec![], vec![Some(eb(&b))]) }
async fn h_text(Text(t): Text<String>) -> &'static str { saw(vec![], vec![Some(et(&t))]) }
async fn h_all(a: u8, Query(q): Query<Q>, JSON(b): JSON<B>) -> &'static str { saw(vec![format!("i:{a}")], vec![Some(eq(&q)), Some(eb(&b))]) }
async fn h_opts(f: Option<URLEncoded<B>>, t: Option<Text<String>>) -> &'static str { saw(vec![], vec![f.map(|URLEncoded(b)| eb(&b)), t.map(|Text(t)| et(&t))]) }
// every IntoHandler shape: param form x 1..4 extractor items (Query, JSON, Option<URLEncoded>, Option<Text>)
fn it1(q: &Q) -> Vec<Option<String>> { vec![Some(eq(q))] }
fn it2(q: &Q, b: &B) -> Vec<Option<String>> { vec![Some(eq(q)), Some(eb(b))] }
fn it3(q: &Q, b: &B, t: Option<Text<String>>) -> Vec<Option<String>> { vec![Some(eq(q)), Some(eb(b)), t.map(|Text(t)| et(&t))] }
fn it4(q: &Q, b: &B, f: Option<URLEncoded<B>>, t: Option<Text<String>>) -> Vec<Option<String>> { vec![Some(eq(q)), Some(eb(b)), f.map(|URLEncoded(b)| eb(&b)), t.map(|Text(t)| et(&t))] }
fn p1(a: u8) -> Vec<String> { vec![format!("i:{a}")] }
fn p2(a: u8, b: &str) -> Vec<String> { vec![format!("i:{a}"), format!("s:{}", hex(b.as_bytes()))] }
async fn c30((a,): (u8,), Query(q): Query<Q>) -> &'static str { saw(p1(a), it1(&q)) }
async fn c31((a,): (u8,), Query(q): Query<Q>, JSON(b): JSON<B>) -> &'static str { saw(p1(a), it2(&q, &b)) }
async fn c32((a,): (u8,), Query(q): Query<Q>, JSON(b): JSON<B>, t: Option<Text<String>>) -> &'static str { saw(p1(a), it3(&q, &b, t)) }
async fn c33((a,): (u8,), Query(q): Query<Q>, JSON(b): JSON<B>, f: Option<URLEncoded<B>>, t: Option<Text<String>>) -> &'static str { saw(p1(a), it4(&q, &b, f, t)) }
async fn c34(a: u8, Query(q): Query<Q>) -> &'static str { saw(p1(a), it1(&q)) }
async fn c35(a: u8, Query(q): Query<Q>, JSON(b): JSON<B>, t: Option<Text<String>>) -> &'static str { saw(p1(a), it3(&q, &b, t)) }
async fn c36(a: u8, Query(q): Query<Q>, JSON(b): JSON<B>, f: Option<URLEncoded<B>>, t: Option<Text<String>>) -> &'static str { saw(p1(a), it4(&q, &b, f, t)) }
async fn c37((a, s): (u8, String), Query(q): Query<Q>) -> &'static str { saw(p2(a, &s), it1(&q)) }
async fn c38((a, s): (u8, String), Query(q): Query<Q>, JSON(b): JSON<B>) -> &'static str { saw(p2(a, &s), it2(&q, &b)) }
async fn c39((a, s): (u8, String), Query(q): Query<Q>, JSON(b): JSON<B>, t: Option<Text<String>>) -> &'static str { saw(p2(a, &s), it3(&q, &b, t)) }
async fn c40((a, s): (u8, String), Query(q): Query<Q>, JSON(b): JSON<B>, f: Option<URLEncoded<B>>, t: Option<Text<String>>) -> &'static str { saw(p2(a, &s), it4(&q, &b, f, t)) }
async fn c41(Query(q): Query<Q>, JSON(b): JSON<B>, t: Option<Text<String>>) -> &'static str { saw(vec![], it3(&q, &b, t)) }
async fn c42(Query(q): Query<Q>, JSON(b): JSON<B>, f: Option<URLEncoded<B>>, t: Option<Text<String>>) -> &'static str { saw(vec![], it4(&q, &b, f, t)) }
async fn h_multi(Multipart(m): Multipart<MF<'_>>) -> &'static str { saw(vec![], vec![Some(em(&m))]) }
async fn h_optmulti(m: Option<Multipart<MF<'_>>>) -> &'static str { saw(vec![], vec![m.map(|Multipart(m)| em(&m))]) }
async fn h_mounted(a: u8) -> &'static str { saw(vec![format!("i:{a}")], vec![]) }

fn app() -> ohkami::testing::TestingOhkami {
    use ohkami::testing::Testing;
    Ohkami::new((
        "/p0/:a".GET(h_u8), "/p1/:a".GET(h_i8), "/p2/:a".GET(h_u16), "/p3/:a".GET(h_i16), "/p4/:a".GET(h_u32), "/p5/:a".GET(h_i32),
        "/p6/:a".GET(h_u64), "/p7/:a".GET(h_i64),
        "/t".By(Ohkami::new((
            "/p10/:a".GET(h_string), "/p11/:a".GET(h_str), "/p12/:a".GET(h_cow), "/p13/:a/:b".GET(h_two), "/p14/:a/:b".GET(h_two2),
            "/p15".GET(h_query), "/p16".POST(h_json), "/p17".POST(h_optjson), "/p18".POST(h_form), "/p19".POST(h_text), "/p20/:a".POST(h_all), "/p23".POST(h_opts),
        ))),
        "/f".By(Ohkami::new((
            "/p43".POST(h_multi), "/p44".POST(h_optmulti), "/p45".GET(h_oquery),
        ))),
        "/q".By(Ohkami::new((
            "/p8/:a".GET(h_usize), "/p9/:a".GET(h_isize),
            "/u".By(Ohkami::new(("/c30/:a".GET(c30), "/c31/:a".POST(c31), "/c32/:a".POST(c32), "/c33/:a".POST(c33), "/c34/:a".GET(c34), "/c35/:a".POST(c35), "/c36/:a".POST(c36)))),
            "/w".By(Ohkami::new(("/c37/:a/:b".GET(c37), "/c38/:a/:b".POST(c38), "/c39/:a/:b".POST(c39), "/c40/:a/:b".POST(c40), "/c41".POST(c41), "/c42".POST(c42)))),
        ))),
        "/m/:p".By(Ohkami::new(("/x/:a".GET(h_mounted),))),
    )).test()
}

pub fn run_case(c: &Value) -> Value {
    pin_clock(PINNED_CLOCK);
    thread_local! { static APP: ohkami::testing::TestingOhkami = app(); }
    *SEEN.lock().unwrap() = None;
    let hs: Vec<(Vec<u8>, Vec<u8>)> = c["headers"].as_array().unwrap().iter().map(|h| (unhex(h[0].as_str().unwrap()), unhex(h[1].as_str().unwrap()))).collect();
    let body = c["body"].as_str().map(unhex).unwrap_or_default();
    let tail = c["tail"].as_str().map(unhex).unwrap_or_default();
    let wire = APP.with(|t| apps::wire_tail(t, c["method"].as_str().unwrap(), &unhex(c["target"].as_str().unwrap()), &hs, &body, &tail));
    let status = match &wire { Ok(w) => std::str::from_utf8(&w[9..12]).unwrap().parse::<u16>().unwrap(), Err(_) => 0 };
    match SEEN.lock().unwrap().take() {
        Some((params, items)) => json!({"ran": true, "status": status, "params": params, "items": items}),
        None => json!({"ran": false, "status": status}),
    }
}
