//! C14 executor: an application tree whose root carries the real CORS fang; requests with Origin / Access-Control-Request-* headers; raw wire bytes
use crate::apps;
use crate::util::*;
use ohkami::prelude::*;
use ohkami::fang::CORS;
use ohkami::testing::Testing;
use serde_json::{json, Value};

fn strs(v: &Value) -> Option<Vec<&'static str>> {
    v.as_array().map(|a| a.iter().map(|s| &*Box::leak(s.as_str().unwrap().to_string().into_boxed_str())).collect())
}

pub fn run_case(c: &Value) -> Value {
    pin_clock(PINNED_CLOCK);
    let p = &c["cors"];
    let mut cors = CORS::new(Box::leak(p["origin"].as_str().unwrap().to_string().into_boxed_str()));
    if p["credentials"].as_bool() == Some(true) { cors = cors.AllowCredentials() }
    macro_rules! arr { ($v:expr, $f:ident) => { if let Some(h) = strs(&$v) { cors = match h.len() {
        0 => cors.$f([]), 1 => cors.$f([h[0]]), 2 => cors.$f([h[0], h[1]]), 3 => cors.$f([h[0], h[1], h[2]]), n => panic!("harness: {n} headers") } } } }
    arr!(p["allow_headers"], AllowHeaders);
    arr!(p["expose_headers"], ExposeHeaders);
    if let Some(m) = p["max_age"].as_u64() { cors = cors.MaxAge(m as u32) }
    let built = std::panic::catch_unwind(std::panic::AssertUnwindSafe(|| {
        match c["cors_at"].as_str() {
            // the policy on a mounted application: everything under that prefix is its scope
            Some(prefix) => {
                let mut sub = Ohkami::with((cors,), ());
                apps::apply_items(&c["app"], &mut sub);
                Ohkami::new((Box::leak(prefix.to_string().into_boxed_str()).By(sub),)).test()
            }
            // the root application: the CORS fang, then the items of the case's root
            None => { let mut oh = Ohkami::with((cors,), ()); apps::apply_items(&c["app"], &mut oh); oh.test() }
        }
    }));
    let t = match built { Ok(t) => t, Err(e) => return json!({"build": "refused", "why": panic_msg(e)}) };
    let mut outs = vec![];
    for r in c["reqs"].as_array().unwrap() {
        let mut hs: Vec<(Vec<u8>, Vec<u8>)> = vec![];
        // header names are case-insensitive: canonical, lower, UPPER or mixed spelling
        let sp = |n: &str| -> Vec<u8> { match r["hcase"].as_u64().unwrap_or(0) { 1 => n.to_lowercase().into_bytes(), 2 => n.to_uppercase().into_bytes(),
            3 => n.chars().enumerate().map(|(i, ch)| if i % 2 == 0 { ch.to_ascii_lowercase() } else { ch.to_ascii_uppercase() }).collect::<String>().into_bytes(), _ => n.as_bytes().to_vec() } };
        if r["origin"].as_bool() == Some(true) { hs.push((sp("Origin"), b"https://client.example".to_vec())) }
        if let Some(m) = r["acrm"].as_str() { hs.push((sp("Access-Control-Request-Method"), m.as_bytes().to_vec())) }
        if let Some(h) = r["acrh"].as_str() { hs.push((sp("Access-Control-Request-Headers"), h.as_bytes().to_vec())) }
        let mut target = unhex(r["p"].as_str().unwrap());
        if let Some(prefix) = c["cors_at"].as_str() { let mut t = prefix.as_bytes().to_vec(); t.extend_from_slice(&target); target = t }
        let m = r["m"].as_str().unwrap();
        outs.push(match std::panic::catch_unwind(std::panic::AssertUnwindSafe(|| apps::wire(&t, m, &target, &hs, &[]))) {
            Ok(Ok(w)) => json!({"wire": hex(&w)}), Ok(Err(e)) => json!({"refused": e}), Err(e) => json!({"panic": panic_msg(e)}) });
    }
    json!({"reqs": outs})
}
