//! C14 executor: an application tree whose root carries the real CORS fang; requests with Origin / Access-Control-Request-* headers; raw wire bytes
use crate::apps;
use crate::util::*;
use ohkami::prelude::*;
use ohkami::fang::CORS;
use ohkami::testing::Testing;
use serde_json::{json, Value};

fn strs(v: &Value) -> Option<Vec<&'static str>> {
    v.as_array().map(|a| a.iter().map(|s| &*Box::leak(s.as_str().unwrap().to_string().into_boxed_str())).collect())
}

pub fn run_case(c: &Value) -> Value {
    pin_clock(PINNED_CLOCK);
    let p = &c["cors"];
    let mut cors = CORS::new(Box::leak(p["origin"].as_str().unwrap().to_string().into_boxed_str()));
    if p["credentials"].as_bool() == Some(true) { cors = cors.AllowCredentials() }
    macro_rules! arr { ($v:expr, $f:ident) => { if let Some(h) = strs(&$v) { cors = match h.len() {
        0 => cors.$f([]), 1 => cors.$f([h[0]]), 2 => cors.$f([h[0], h[1]]), 3 => cors.$f([h[0], h[1], h[2]]), n => panic!("harness: {n} headers") } } } }
    arr!(p["allow_headers"], AllowHeaders);
    arr!(p["expose_headers"], ExposeHeaders);
    if let Some(m) = p["max_age"].as_u64() { cors = cors.MaxAge(m as u32) }
    let built = std::panic::catch_unwind(std::panic::AssertUnwindSafe(|| {
        // the root application: the CORS fang, then the items of the case's root
        let mut oh = Ohkami::with((cors,), ());
        apps::apply_items(&c["app"], &mut oh);
        oh.test()
    }));
    let t = match built { Ok(t) => t, Err(e) => return json!({"build": "refused", "why": panic_msg(e)}) };
    let mut outs = vec![];
    for r in c["reqs"].as_array().unwrap() {
        let mut hs: Vec<(Vec<u8>, Vec<u8>)> = vec![];
        if r["origin"].as_bool() == Some(true) { hs.push((b"Origin".to_vec(), b"https://client.example".to_vec())) }
        if let Some(m) = r["acrm"].as_str() { hs.push((b"Access-Control-Request-Method".to_vec(), m.as_bytes().to_vec())) }
        if let Some(h) = r["acrh"].as_str() { hs.push((b"Access-Control-Request-Headers".to_vec(), h.as_bytes().to_vec())) }
        let target = unhex(r["p"].as_str().unwrap());
        let m = r["m"].as_str().unwrap();
        outs.push(match std::panic::catch_unwind(std::panic::AssertUnwindSafe(|| apps::wire(&t, m, &target, &hs, &[]))) {
            Ok(Ok(w)) => json!({"wire": hex(&w)}), Ok(Err(e)) => json!({"refused": e}), Err(e) => json!({"panic": panic_msg(e)}) });
    }
    json!({"reqs": outs})
}
