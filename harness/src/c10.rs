//! C10 (and C08) executor: `serde_multipart::from_bytes` into a catalogue of target structs (text fields, File, Vec<File>, Option<File>)
use crate::util::*;
use ohkami_lib::serde_multipart::{from_bytes, File};
use serde::Deserialize;
use serde_json::{json, Value as J};

fn fj(f: &File) -> J { json!({"filename": hex(f.filename.as_bytes()), "mimetype": hex(f.mimetype.as_bytes()), "content": hex(f.content)}) }
fn sj(s: &str) -> J { json!({"s": hex(s.as_bytes())}) }
fn of(f: &Option<File>) -> J { match f { None => json!("none"), Some(f) => json!({"some": {"file": fj(f)}}) } }
fn os(s: &Option<String>) -> J { match s { None => json!("none"), Some(s) => json!({"some": sj(s)}) } }
fn vf(v: &Vec<File>) -> J { json!({"seq": v.iter().map(fj).collect::<Vec<_>>()}) }

#[derive(Deserialize)] struct F0<'a> { note: Option<String>, #[serde(borrow)] f: Option<File<'a>>, #[serde(borrow, default)] fs: Vec<File<'a>> }
#[derive(Deserialize)] struct F1<'a> { title: String, #[serde(borrow)] doc: File<'a> }
#[derive(Deserialize)] struct F2<'a> { a: &'a str, b: String, #[serde(borrow)] pics: Vec<File<'a>> }
#[derive(Deserialize)] struct F3 { x: String, y: Option<String> }
// field names that are not identifiers (serde rename), as in the documentation of Multipart
#[derive(Deserialize)] struct F4<'a> { #[serde(rename = "user-name")] a: String, #[serde(rename = "pet photos", borrow)] pics: Vec<File<'a>>, #[serde(rename = "ü")] u: Option<String>, #[serde(rename = "a.b[0]", borrow)] f: Option<File<'a>> }

pub fn run_case(c: &J) -> J {
    let input = unhex(c["input"].as_str().unwrap());
    let k = |n: &str| hex(n.as_bytes());
    macro_rules! run { ($t:ty, |$v:ident| $val:expr) => { match from_bytes::<$t>(&input) { Ok($v) => json!({"outcome": "ok", "value": $val}), Err(_) => json!({"outcome": "err"}) } } }
    match c["tid"].as_u64().unwrap() {
        0 => run!(F0, |v| json!([[k("note"), os(&v.note)], [k("f"), of(&v.f)], [k("fs"), vf(&v.fs)]])),
        1 => run!(F1, |v| json!([[k("title"), sj(&v.title)], [k("doc"), {"file": fj(&v.doc)}]])),
        2 => run!(F2, |v| json!([[k("a"), sj(v.a)], [k("b"), sj(&v.b)], [k("pics"), vf(&v.pics)]])),
        3 => run!(F3, |v| json!([[k("x"), sj(&v.x)], [k("y"), os(&v.y)]])),
        4 => run!(F4, |v| json!([[k("user-name"), sj(&v.a)], [k("pet photos"), vf(&v.pics)], [k("ü"), os(&v.u)], [k("a.b[0]"), of(&v.f)]])),
        _ => json!({"outcome": "bad-tid"}),
    }
}
