//! C17 executor: a handler returning a `DataStream` whose producer follows a scripted schedule
//! (per step: push some messages, then either yield to the executor once or complete); the wire bytes of the whole response.
use crate::util::*;
use ohkami::prelude::*;
use ohkami::sse::DataStream;
use ohkami::testing::*;
use serde_json::{json, Value};
use std::sync::Mutex;

static SCHED: Mutex<Vec<(Vec<String>, bool)>> = Mutex::new(Vec::new());

struct YieldOnce(bool);
impl std::future::Future for YieldOnce {
    type Output = ();
    fn poll(mut self: std::pin::Pin<&mut Self>, cx: &mut std::task::Context<'_>) -> std::task::Poll<()> {
        if self.0 { std::task::Poll::Ready(()) } else { self.0 = true; cx.waker().wake_by_ref(); std::task::Poll::Pending }
    }
}

async fn sse() -> DataStream {
    DataStream::new(|mut s| async move {
        let sched = SCHED.lock().unwrap().clone();
        for (pushes, ready) in sched {
            for m in pushes { s.send(m); }
            if ready { return }
            YieldOnce(false).await;
        }
        // a schedule that never completes is cut here (the generator always ends with a completing step)
    })
}

/// the same schedule as a `Stream` of its own (for `DataStream::from` and `Response::with_stream`): per step its messages, then Pending once or the end
struct Sched(std::collections::VecDeque<(std::collections::VecDeque<String>, bool)>);
impl Sched { fn current() -> Self { Sched(SCHED.lock().unwrap().iter().map(|(p, r)| (p.iter().cloned().collect(), *r)).collect()) } }
impl ohkami::util::Stream for Sched {
    type Item = String;
    fn poll_next(mut self: std::pin::Pin<&mut Self>, cx: &mut std::task::Context<'_>) -> std::task::Poll<Option<String>> {
        let Some((pushes, ready)) = self.0.front_mut() else { return std::task::Poll::Ready(None) };
        if let Some(m) = pushes.pop_front() { return std::task::Poll::Ready(Some(m)) }
        if *ready { return std::task::Poll::Ready(None) }
        self.0.pop_front();
        cx.waker().wake_by_ref();
        std::task::Poll::Pending
    }
}
async fn sse_from() -> DataStream { DataStream::from(Sched::current()) }
async fn sse_with_stream() -> Response { Response::OK().with_stream(Sched::current()) }
/// `DataStream<&'static str>` through the handle
async fn sse_str() -> DataStream<&'static str> {
    DataStream::new(|mut s| async move {
        let sched = SCHED.lock().unwrap().clone();
        for (pushes, ready) in sched {
            for m in pushes { s.send(leak_str(m.into_bytes())); }
            if ready { return }
            YieldOnce(false).await;
        }
    })
}

pub fn run_case(c: &Value) -> Value {
    if c.get("timed").is_some() { return crate::c05::timed() }
    pin_clock(PINNED_CLOCK);
    *SCHED.lock().unwrap() = c["sched"].as_array().unwrap().iter().map(|s| (
        s["pushes"].as_array().unwrap().iter().map(|p| string(unhex(p.as_str().unwrap()))).collect(), s["ready"].as_bool().unwrap())).collect();
    let t = Ohkami::new(("/sse".GET(sse), "/from".GET(sse_from), "/with_stream".GET(sse_with_stream), "/str".GET(sse_str))).test();
    let target = match c["entry"].as_str().unwrap_or("new") { "new" => "/sse", "from" => "/from", "with_stream" => "/with_stream", "str" => "/str", o => panic!("harness: entry {o}") };
    let raw = format!("GET {target} HTTP/1.1\r\n\r\n");
    let wire = rt().block_on(async {
        let mut req = Request::__verif_init();
        let mut req = std::pin::Pin::new(&mut req);
        let mut conn: &[u8] = raw.as_bytes();
        req.as_mut().__verif_read(&mut conn).await.ok();
        let res = t.__verif_handle(req.get_mut()).await;
        let mut wire: Vec<u8> = Vec::new();
        res.__verif_send(&mut wire).await;
        wire
    });
    json!({"wire": hex(&wire)})
}
