use std::any::Any;

pub fn unhex(s: &str) -> Vec<u8> { (0..s.len() / 2).map(|i| u8::from_str_radix(&s[2 * i..2 * i + 2], 16).unwrap()).collect() }
pub fn hex(b: &[u8]) -> String { let mut s = String::with_capacity(b.len() * 2); for x in b { s.push_str(&format!("{x:02x}")); } s }
pub fn leak_str(b: Vec<u8>) -> &'static str { Box::leak(String::from_utf8(b).expect("harness: case string is not UTF-8").into_boxed_str()) }
pub fn string(b: Vec<u8>) -> String { String::from_utf8(b).expect("harness: case string is not UTF-8") }
pub fn panic_msg(e: Box<dyn Any + Send>) -> String {
    e.downcast_ref::<String>().cloned().or_else(|| e.downcast_ref::<&str>().map(|s| s.to_string())).unwrap_or_else(|| "?".into())
}
pub fn rt() -> tokio::runtime::Runtime { tokio::runtime::Builder::new_current_thread().enable_all().build().unwrap() }
pub const PINNED_CLOCK: u64 = 784111777; // Sun, 06 Nov 1994 08:49:37 GMT
pub fn pin_clock(t: u64) { ohkami::util::__VERIF_CLOCK.store(t, std::sync::atomic::Ordering::Relaxed); }
