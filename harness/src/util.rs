use std::any::Any;

pub fn unhex(s: &str) -> Vec<u8> { (0..s.len() / 2).map(|i| u8::from_str_radix(&s[2 * i..2 * i + 2], 16).unwrap()).collect() }
pub fn hex(b: &[u8]) -> String { let mut s = String::with_capacity(b.len() * 2); for x in b { s.push_str(&format!("{x:02x}")); } s }
pub fn leak_str(b: Vec<u8>) -> &'static str { Box::leak(String::from_utf8(b).expect("harness: case string is not UTF-8").into_boxed_str()) }
pub fn string(b: Vec<u8>) -> String { String::from_utf8(b).expect("harness: case string is not UTF-8") }
pub fn panic_msg(e: Box<dyn Any + Send>) -> String {
    e.downcast_ref::<String>().cloned().or_else(|| e.downcast_ref::<&str>().map(|s| s.to_string())).unwrap_or_else(|| "?".into())
}
pub fn rt() -> tokio::runtime::Runtime { tokio::runtime::Builder::new_current_thread().enable_all().build().unwrap() }
pub const PINNED_CLOCK: u64 = 784111777; // Sun, 06 Nov 1994 08:49:37 GMT
pub fn pin_clock(t: u64) { ohkami::util::__VERIF_CLOCK.store(t, std::sync::atomic::Ordering::Relaxed); }

/// an in-memory connection: each element of `chunks` is what one `read` finds available (a chunk longer than the
/// destination is delivered over consecutive reads); after the script, `eof` decides between end-of-stream and a
/// connection that stays open with nothing to read (the read then never completes: the executor reports `stall`).
pub struct Script { pub chunks: std::collections::VecDeque<Vec<u8>>, pub eof: bool, pub stalled: std::sync::Arc<std::sync::atomic::AtomicBool> }
impl Script {
    pub fn new(chunks: Vec<Vec<u8>>, eof: bool) -> Self { Script { chunks: chunks.into(), eof, stalled: Default::default() } }
}
impl tokio::io::AsyncRead for Script {
    fn poll_read(mut self: std::pin::Pin<&mut Self>, _cx: &mut std::task::Context<'_>, buf: &mut tokio::io::ReadBuf<'_>) -> std::task::Poll<std::io::Result<()>> {
        loop {
            match self.chunks.front_mut() {
                None => {
                    if self.eof { return std::task::Poll::Ready(Ok(())) }
                    self.stalled.store(true, std::sync::atomic::Ordering::SeqCst);
                    return std::task::Poll::Pending
                }
                Some(c) if c.is_empty() => { self.chunks.pop_front(); continue }
                Some(c) => {
                    let n = c.len().min(buf.remaining());
                    buf.put_slice(&c[..n]); c.drain(..n);
                    if c.is_empty() { self.chunks.pop_front(); }
                    return std::task::Poll::Ready(Ok(()))
                }
            }
        }
    }
}

/// poll a future once-at-a-time on the current thread until it completes or the script reports a stall
pub fn block_on_or_stall<F: std::future::Future>(stalled: &std::sync::atomic::AtomicBool, fut: F) -> Option<F::Output> {
    use std::task::{Context, Poll, RawWaker, RawWakerVTable, Waker};
    fn noop_raw() -> RawWaker { fn no(_: *const ()) {} fn cl(_: *const ()) -> RawWaker { noop_raw() } static VT: RawWakerVTable = RawWakerVTable::new(cl, no, no, no); RawWaker::new(std::ptr::null(), &VT) }
    let waker = unsafe { Waker::from_raw(noop_raw()) };
    let mut cx = Context::from_waker(&waker);
    let mut fut = std::pin::pin!(fut);
    for _ in 0..1_000_000 {
        match fut.as_mut().poll(&mut cx) {
            Poll::Ready(v) => return Some(v),
            Poll::Pending => if stalled.load(std::sync::atomic::Ordering::SeqCst) { return None },
        }
    }
    None
}
