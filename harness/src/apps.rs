//! Applications assembled from a run-time description (through hook H1), with tracing fangs and identity-echoing handlers.
//! App  = {"fangs": [int], "items": [Item]}
//! Item = {"route": "/a/:x", "methods": ["GET", ..], "h": int, "local": [int]} | {"mount": "/api/:v", "app": App}
use crate::util::*;
use ohkami::prelude::*;
use ohkami::__verif::Routing;
use serde_json::Value;
use std::sync::Mutex;

pub static LOG: Mutex<Vec<String>> = Mutex::new(Vec::new());
pub static STOP: Mutex<Option<i64>> = Mutex::new(None);     // the fang that answers early
pub fn log(s: String) { LOG.lock().unwrap().push(s) }

#[derive(Clone)]
pub struct L(pub i64);
impl FangAction for L {
    async fn fore<'a>(&'a self, _req: &'a mut Request) -> Result<(), Response> {
        log(format!("+{}", self.0));
        if *STOP.lock().unwrap() == Some(self.0) { return Err(Response::new(Status::from(418u16))) }
        Ok(())
    }
    async fn back<'a>(&'a self, _res: &'a mut Response) { log(format!("-{}", self.0)); }
}

fn leak(s: &str) -> &'static str { Box::leak(s.to_string().into_boxed_str()) }

macro_rules! with_fangs {
    ($ids:expr, |$f:ident| $body:expr) => {{
        let ids: &Vec<i64> = $ids;
        match ids.len() {
            0 => { let $f = (); $body }
            1 => { let $f = (L(ids[0]),); $body }
            2 => { let $f = (L(ids[0]), L(ids[1])); $body }
            3 => { let $f = (L(ids[0]), L(ids[1]), L(ids[2])); $body }
            4 => { let $f = (L(ids[0]), L(ids[1]), L(ids[2]), L(ids[3])); $body }
            5 => { let $f = (L(ids[0]), L(ids[1]), L(ids[2]), L(ids[3]), L(ids[4])); $body }
            6 => { let $f = (L(ids[0]), L(ids[1]), L(ids[2]), L(ids[3]), L(ids[4]), L(ids[5])); $body }
            7 => { let $f = (L(ids[0]), L(ids[1]), L(ids[2]), L(ids[3]), L(ids[4]), L(ids[5]), L(ids[6])); $body }
            8 => { let $f = (L(ids[0]), L(ids[1]), L(ids[2]), L(ids[3]), L(ids[4]), L(ids[5]), L(ids[6]), L(ids[7])); $body }
            n => panic!("harness: {n} fangs"),
        }
    }};
}

fn handler(id: i64) -> impl Fn(&Request) -> std::pin::Pin<Box<dyn std::future::Future<Output = String> + Send>> + Send + Sync + Clone + 'static {
    move |req: &Request| {
        let params: Vec<String> = req.path.params().map(|c| hex(c.as_bytes())).collect();
        log(format!("h{id}:{}", params.join(",")));
        Box::pin(async move { format!("h{id}") })
    }
}

macro_rules! set_method {
    ($hs:expr, $route:expr, $m:expr, $h:expr) => {
        match ($hs.take(), $m) {
            (None, "GET") => Some($route.GET($h)), (None, "PUT") => Some($route.PUT($h)), (None, "POST") => Some($route.POST($h)),
            (None, "PATCH") => Some($route.PATCH($h)), (None, "DELETE") => Some($route.DELETE($h)),
            (Some(hs), "GET") => Some(hs.GET($h)), (Some(hs), "PUT") => Some(hs.PUT($h)), (Some(hs), "POST") => Some(hs.POST($h)),
            (Some(hs), "PATCH") => Some(hs.PATCH($h)), (Some(hs), "DELETE") => Some(hs.DELETE($h)),
            (_, m) => panic!("harness: method {m}"),
        }
    };
}

pub fn build(app: &Value) -> Ohkami {
    let fangs: Vec<i64> = app["fangs"].as_array().map(|a| a.iter().map(|x| x.as_i64().unwrap()).collect()).unwrap_or_default();
    // two public ways to attach fangs: `Ohkami::with(fangs, routes)` and `Ohkami::new((f1, .., fk, routes..))` (one macro per arity)
    let mut oh = if app["via_new"].as_bool() == Some(true) && !fangs.is_empty() {
        let ids = &fangs;
        match ids.len() {
            1 => Ohkami::new((L(ids[0]), "/")),
            2 => Ohkami::new((L(ids[0]), L(ids[1]), "/")),
            3 => Ohkami::new((L(ids[0]), L(ids[1]), L(ids[2]), "/")),
            4 => Ohkami::new((L(ids[0]), L(ids[1]), L(ids[2]), L(ids[3]), "/")),
            5 => Ohkami::new((L(ids[0]), L(ids[1]), L(ids[2]), L(ids[3]), L(ids[4]), "/")),
            6 => Ohkami::new((L(ids[0]), L(ids[1]), L(ids[2]), L(ids[3]), L(ids[4]), L(ids[5]), "/")),
            7 => Ohkami::new((L(ids[0]), L(ids[1]), L(ids[2]), L(ids[3]), L(ids[4]), L(ids[5]), L(ids[6]), "/")),
            8 => Ohkami::new((L(ids[0]), L(ids[1]), L(ids[2]), L(ids[3]), L(ids[4]), L(ids[5]), L(ids[6]), L(ids[7]), "/")),
            n => panic!("harness: {n} fangs"),
        }
    } else { with_fangs!(&fangs, |f| Ohkami::with(f, ())) };
    apply_items(app, &mut oh);
    oh
}

/// register the items of `app` (routes, mounts) directly on `oh`
pub fn apply_items(app: &Value, oh: &mut Ohkami) {
    for item in app["items"].as_array().unwrap() {
        if let Some(m) = item.get("mount").and_then(Value::as_str) {
            let sub = build(&item["app"]);
            Routing::apply(leak(m).By(sub), oh);
        } else {
            let route = leak(item["route"].as_str().unwrap());
            let id = item["h"].as_i64().unwrap();
            let local: Vec<i64> = item["local"].as_array().map(|a| a.iter().map(|x| x.as_i64().unwrap()).collect()).unwrap_or_default();
            let mut hs = None;
            for m in item["methods"].as_array().unwrap() {
                let m = m.as_str().unwrap();
                hs = match local.len() {
                    0 => set_method!(hs, route, m, handler(id)),
                    1 => set_method!(hs, route, m, (L(local[0]), handler(id))),
                    2 => set_method!(hs, route, m, (L(local[0]), L(local[1]), handler(id))),
                    3 => set_method!(hs, route, m, (L(local[0]), L(local[1]), L(local[2]), handler(id))),
                    n => panic!("harness: {n} local fangs"),
                };
            }
            if let Some(hs) = hs { Routing::apply(hs, oh); }
        }
    }
}

/// one request through `testing::oneshot`; returns (status, body text, log)
pub fn request(t: &ohkami::testing::TestingOhkami, method: &str, path: &str) -> (u16, Option<String>, Vec<String>) {
    use ohkami::testing::*;
    LOG.lock().unwrap().clear();
    let p = leak(path);
    let req = match method { "GET" => TestRequest::GET(p), "PUT" => TestRequest::PUT(p), "POST" => TestRequest::POST(p), "PATCH" => TestRequest::PATCH(p),
        "DELETE" => TestRequest::DELETE(p), "HEAD" => TestRequest::HEAD(p), "OPTIONS" => TestRequest::OPTIONS(p), m => panic!("harness: method {m}") };
    let (status, body) = rt().block_on(async { let res = t.oneshot(req).await; (res.status().code(), res.text().map(|s| s.to_string())) });
    (status, body, LOG.lock().unwrap().clone())
}

/// one request given as raw bytes of the request line target, through the real parser, router and serializer (hooks H2): the wire bytes
pub fn wire(t: &ohkami::testing::TestingOhkami, method: &str, target: &[u8], headers: &[(Vec<u8>, Vec<u8>)], body: &[u8]) -> Result<Vec<u8>, String> {
    wire_tail(t, method, target, headers, body, b"")
}
/// the same, with `tail` arriving behind the body in the same read (a stray CRLF, the next pipelined request): not part of this request
pub fn wire_tail(t: &ohkami::testing::TestingOhkami, method: &str, target: &[u8], headers: &[(Vec<u8>, Vec<u8>)], body: &[u8], tail: &[u8]) -> Result<Vec<u8>, String> {
    let mut raw = Vec::new();
    raw.extend_from_slice(method.as_bytes()); raw.push(b' '); raw.extend_from_slice(target); raw.extend_from_slice(b" HTTP/1.1\r\n");
    for (k, v) in headers { raw.extend_from_slice(k); raw.extend_from_slice(b": "); raw.extend_from_slice(v); raw.extend_from_slice(b"\r\n"); }
    if !body.is_empty() { raw.extend_from_slice(format!("Content-Length: {}\r\n", body.len()).as_bytes()); }
    raw.extend_from_slice(b"\r\n"); raw.extend_from_slice(body); raw.extend_from_slice(tail);
    // one request object per thread, cleared before each read, as the session loop keeps one per connection: what an earlier request left
    // in it (path, query, headers, payload, context) is there to be found by the next
    thread_local! { static REQ: std::cell::RefCell<Request> = std::cell::RefCell::new(Request::__verif_init()); }
    REQ.with(|cell| rt().block_on(async {
        let mut guard = cell.borrow_mut();
        guard.__verif_clear();
        let mut req = std::pin::Pin::new(&mut *guard);
        let mut conn = Script::new(vec![raw], true);
        let res = match req.as_mut().__verif_read(&mut conn).await {
            Ok(Some(())) => t.__verif_handle(req.get_mut()).await,
            Ok(None) => return Err("closed".to_string()),
            Err(res) => res,
        };
        let mut wire: Vec<u8> = Vec::new();
        res.__verif_send(&mut wire).await;
        if let Some(bad) = framing_error(method, &wire) { panic!("response framing: {bad}") }
        Ok(wire)
    }))
}

/// what every check that looks at a served response relies on: the message's own framing delimits exactly the bytes that were written
/// (Content-Length = the number of body bytes, or chunked coding; no body for HEAD and 204)
pub fn framing_error(method: &str, wire: &[u8]) -> Option<String> {
    let end = wire.windows(4).position(|w| w == b"\r\n\r\n")?;
    let (head, body) = (&wire[..end], &wire[end + 4..]);
    let head = String::from_utf8_lossy(head);
    let mut lines = head.split("\r\n");
    let status: u16 = lines.next()?.split(' ').nth(1)?.parse().ok()?;
    let (mut cl, mut chunked) = (None, false);
    for l in lines {
        if let Some((k, v)) = l.split_once(": ") {
            if k.eq_ignore_ascii_case("content-length") { cl = Some(v.to_string()) }
            if k.eq_ignore_ascii_case("transfer-encoding") && v == "chunked" { chunked = true }
        }
    }
    if (100..200).contains(&status) || status == 304 { return None }          // content a user sets on 1xx / 304 is documented as the user's responsibility (C03)
    if method == "HEAD" || status == 204 {
        return (!body.is_empty()).then(|| format!("{} body bytes on a response that has no body ({method}, status {status})", body.len()))
    }
    if chunked { return cl.map(|c| format!("Content-Length {c} beside Transfer-Encoding: chunked")) }
    match cl {
        None => Some(format!("status {status} with neither Content-Length nor chunked coding")),
        Some(c) => (c.parse::<usize>().ok() != Some(body.len())).then(|| format!("Content-Length {c} but {} body bytes follow", body.len())),
    }
}
