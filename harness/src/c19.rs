//! C19 executor: a temporary directory with the case's files, mounted with the real `Route::Dir`, then GET requests as raw targets
use crate::apps;
use crate::util::*;
use ohkami::prelude::*;
use ohkami::testing::Testing;
use ohkami::__verif::Routing;
use serde_json::{json, Value};
use std::fs;

pub fn run_case(c: &Value) -> Value {
    pin_clock(PINNED_CLOCK);
    let root = std::path::PathBuf::from(format!("/tmp/verif_c19_{}", std::process::id()));
    let _ = fs::remove_dir_all(&root);
    let pubdir = root.join("pub");
    fs::create_dir_all(&pubdir).unwrap();
    for f in c["tree"].as_array().unwrap() {
        let segs: Vec<String> = f["path"].as_array().unwrap().iter().map(|s| string(unhex(s.as_str().unwrap()))).collect();
        let mut p = pubdir.clone();
        for s in &segs { p.push(s) }
        fs::create_dir_all(p.parent().unwrap()).unwrap();
        fs::write(&p, unhex(f["content"].as_str().unwrap())).unwrap();
    }
    for l in c.get("links").and_then(Value::as_array).cloned().unwrap_or_default() {   // [name under pub, target relative to root]
        fs::create_dir_all(root.join("outside")).unwrap();
        fs::write(root.join("outside/secret.txt"), b"SECRET").unwrap();
        // siblings of the served directory whose names begin with its name: outside it all the same
        for sib in ["pub2", "pub-old", "pub.bak", "pubs"] {
            fs::create_dir_all(root.join(sib)).unwrap();
            fs::write(root.join(sib).join("secret.txt"), b"SECRET").unwrap();
        }
        std::os::unix::fs::symlink(root.join(l[1].as_str().unwrap()), pubdir.join(l[0].as_str().unwrap())).unwrap();
    }
    let dir: &'static str = Box::leak(pubdir.to_str().unwrap().to_string().into_boxed_str());
    let mount: &'static str = Box::leak(c["mount"].as_str().unwrap().to_string().into_boxed_str());
    let dots = c["omit_dots"].as_bool() == Some(true);
    let omit: Vec<&'static str> = c["omit"].as_array().unwrap().iter().map(|s| &*Box::leak(format!("{}{}", if dots { "." } else { "" }, s.as_str().unwrap()).into_boxed_str())).collect();
    let built = std::panic::catch_unwind(std::panic::AssertUnwindSafe(|| {
        let d = mount.Dir(dir);
        let d = match omit.len() { 0 => d, 1 => d.omit_extensions([omit[0]]), 2 => d.omit_extensions([omit[0], omit[1]]), 3 => d.omit_extensions([omit[0], omit[1], omit[2]]), 4 => d.omit_extensions([omit[0], omit[1], omit[2], omit[3]]), n => panic!("harness: {n} omit") };
        let mut oh = Ohkami::with((), ());
        Routing::apply(d, &mut oh);
        oh.test()
    }));
    let out = match built {
        Err(e) => json!({"startup": "refused", "why": panic_msg(e)}),
        Ok(t) => {
            let mut outs = vec![];
            for r in c["reqs"].as_array().unwrap() {
                let target = unhex(r.as_str().unwrap());
                outs.push(match std::panic::catch_unwind(std::panic::AssertUnwindSafe(|| apps::wire(&t, "GET", &target, &[], &[]))) {
                    Ok(Ok(w)) => json!({"wire": hex(&w)}), Ok(Err(e)) => json!({"refused": e}), Err(e) => json!({"panic": panic_msg(e)}) });
            }
            json!({"reqs": outs})
        }
    };
    let _ = fs::remove_dir_all(&root);
    out
}
