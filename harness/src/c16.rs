//! C16 — a catalogue of real types deriving serde's traits and `openapi::Schema` (expanded by the real proc macros at build time).
//! case {"kind": "catalogue", "idx": i} -> {"name", "src" (the definition as written), "schema" (Schema::schema() as JSON),
//!        "values" (serde_json::to_value of sample values), "omittable" ({key: from_value still succeeds without it}), "roundtrip"}
//! {"kind": "count"} -> {"n": number of catalogue entries}
#![allow(dead_code, non_snake_case, non_camel_case_types)]
use ohkami::openapi::{self, Schema};
use ohkami::serde::{Deserialize, Serialize};
use serde_json::{json, Map, Value};

macro_rules! catalogue {
    ($( $item:item )*) => {
        $( #[derive(Serialize, Deserialize, Schema, Clone, Debug, Default)] $item )*
        const SOURCES: &[&str] = &[$( stringify!($item) ),*];
    };
}
macro_rules! catalogue_enums {
    ($( $item:item )*) => {
        $( #[derive(Serialize, Deserialize, Schema, Clone, Debug)] $item )*
        const ENUM_SOURCES: &[&str] = &[$( stringify!($item) ),*];
    };
}

catalogue! {
    struct Inner { a: i32, #[serde(default)] b: Option<String> }

    #[serde(rename_all = "camelCase")]
    struct S1 { user_name: String, #[serde(default)] age_years: u8, #[serde(skip_serializing_if = "Option::is_none")] nick_name: Option<String>,
                #[serde(rename = "ID")] id: u64, #[serde(skip)] sk: u8, #[serde(skip_deserializing)] sd_field: u8, #[serde(skip_serializing)] ss_field: u8 }

    #[serde(rename_all = "kebab-case")]
    struct S2 { user_name: String, r#type: String, list_of: Vec<Inner>, inner_one: Inner, #[openapi(schema_with = "bool_schema")] a_b_c: bool }

    #[serde(rename_all = "SCREAMING-KEBAB-CASE")]
    struct S3 { user_name: String, x: f64, opt_val: Option<i64> }

    #[serde(rename_all = "PascalCase")]
    struct S4 { user_name: String, x1_y: u16, #[serde(rename = "user-id")] uid: u32 }

    #[serde(rename_all = "SCREAMING_SNAKE_CASE")]
    struct S5 { user_name: String, ok: u8 }

    #[serde(rename_all = "UPPERCASE")]
    struct S5u { user_name: String, ok: u8 }

    #[serde(rename_all = "lowercase")]
    struct S5l { user_name: String, Ok_: u8 }

    #[serde(rename_all = "snake_case")]
    struct S5s { user_name: String, r#match: u8 }

    #[serde(default)]
    struct S6 { a: i32, b: String, #[openapi(schema_with = "bool_schema")] c: Option<bool>, #[serde(rename = "d-e")] d: Vec<u8> }

    struct S7 { #[serde(flatten)] inner: Inner, x: u8 }

    struct S8(i32);

    struct S9(i32, String);

    #[openapi(component)]
    struct C2 { v: f64 }

    #[openapi(component)]
    struct C1 { items: Vec<C2>, one: C2, #[serde(skip_serializing_if = "Vec::is_empty", default)] tags: Vec<String> }

    struct Owner { name: String, id: u32, nick: Option<String> }

    struct Ticket { title: String, #[serde(flatten)] owner: Owner }

    struct Ticket2 { title: String, #[serde(flatten)] owner: Option<Owner> }

    struct S10 { o1: Option<String>, #[serde(default, skip_serializing_if = "Option::is_none")] o2: Option<Inner>, v: Vec<i32> }

    #[serde(transparent)]
    struct Tr1 { inner: u32 }

    #[serde(transparent)]
    struct Tr2 { #[serde(skip)] unit: (), value: Inner }
}

catalogue_enums! {
    #[serde(rename_all = "snake_case")]
    enum U1 { FooBar, BazQux, #[serde(rename = "x-y")] Renamed, #[serde(skip)] Hidden }

    #[serde(rename_all = "SCREAMING-KEBAB-CASE")]
    enum U2 { FooBar, Baz }

    #[serde(rename_all = "kebab-case")]
    enum U3 { FooBar, HTTPServer }

    #[serde(rename_all = "camelCase")]
    enum U4 { FooBar, Baz }

    #[serde(rename_all = "snake_case", rename_all_fields = "camelCase")]
    enum E2 { UnitOne, NewT(Inner), TupleV(i32, String), StructV { field_one: i32, #[serde(default)] opt_field: Option<String> } }

    #[serde(tag = "type", rename_all = "camelCase")]
    enum E3 { UnitOne, StructV { field_one: i32 }, NewT(Inner), #[serde(rename_all = "SCREAMING_SNAKE_CASE")] Shout { field_two: u8 } }

    #[serde(tag = "t", content = "c")]
    enum E4 { UnitOne, NewT(Inner), TupleV(i32, String), #[serde(rename = "re-named")] StructV { field_one: i32 } }

    #[serde(untagged)]
    enum E5 { StructV { field_one: i32 }, NewT(String), TupleV(i32, u8) }

    #[serde(tag = "kind")]
    enum U5 { FooBar, Baz }

    #[serde(tag = "t", content = "c", rename_all = "kebab-case")]
    enum U6 { FooBar, Baz }

    #[serde(untagged)]
    enum E5u { StructV { field_one: i32 }, UnitOne }

    enum E6 { #[serde(rename_all = "kebab-case")] A { field_one: i32, #[serde(rename = "F2")] field_two: i32 }, #[serde(skip)] B(i32), #[serde(skip_deserializing)] C { x: i32 }, D }
}

fn entry<T: Serialize + for<'de> Deserialize<'de> + Schema>(name: &str, src: &str, vals: Vec<T>) -> Value {
    let schema: openapi::schema::SchemaRef = T::schema().into();
    let schema = serde_json::to_value(&schema).unwrap();
    let vs: Vec<Value> = vals.iter().map(|v| serde_json::to_value(v).unwrap()).collect();
    let mut omittable = Map::new();
    let mut roundtrip = vec![];
    for v in &vs {
        roundtrip.push(serde_json::from_value::<T>(v.clone()).is_ok());
        if let Some(o) = v.as_object() {
            for k in o.keys() {
                let mut o2 = o.clone();
                o2.remove(k);
                let ok = serde_json::from_value::<T>(Value::Object(o2)).is_ok();
                let prev = omittable.get(k).and_then(|p| p.as_bool()).unwrap_or(true);
                omittable.insert(k.clone(), json!(prev && ok));
            }
        }
    }
    json!({"name": name, "src": src, "schema": schema, "values": vs, "omittable": omittable, "roundtrip": roundtrip})
}

fn bool_schema() -> impl Into<openapi::schema::SchemaRef> { openapi::bool() }

fn inner() -> Inner { Inner { a: -3, b: Some("x".into()) } }

fn all() -> Vec<Value> {
    let s = |i: usize| SOURCES[i];
    let e = |i: usize| ENUM_SOURCES[i];
    let mut i = 0usize;
    let mut nx = || { i += 1; i - 1 };
    let mut out = vec![];
    out.push(entry("Inner", s(nx()), vec![inner(), Inner { a: 0, b: None }]));
    out.push(entry("S1", s(nx()), vec![S1 { user_name: "u".into(), age_years: 3, nick_name: Some("n".into()), id: 7, sk: 1, sd_field: 2, ss_field: 3 }, S1::default()]));
    out.push(entry("S2", s(nx()), vec![S2 { user_name: "u".into(), r#type: "t".into(), list_of: vec![inner(), Inner::default()], inner_one: inner(), a_b_c: true }, S2::default()]));
    out.push(entry("S3", s(nx()), vec![S3 { user_name: "u".into(), x: 1.5, opt_val: Some(-9) }, S3::default()]));
    out.push(entry("S4", s(nx()), vec![S4 { user_name: "u".into(), x1_y: 9, uid: 4 }]));
    out.push(entry("S5", s(nx()), vec![S5 { user_name: "u".into(), ok: 1 }]));
    out.push(entry("S5u", s(nx()), vec![S5u { user_name: "u".into(), ok: 0 }]));
    out.push(entry("S5l", s(nx()), vec![S5l { user_name: "u".into(), Ok_: 1 }]));
    out.push(entry("S5s", s(nx()), vec![S5s { user_name: "u".into(), r#match: 1 }]));
    out.push(entry("S6", s(nx()), vec![S6 { a: 1, b: "b".into(), c: Some(true), d: vec![1, 2] }, S6::default()]));
    out.push(entry("S7", s(nx()), vec![S7 { inner: inner(), x: 1 }, S7::default()]));
    out.push(entry("S8", s(nx()), vec![S8(5)]));
    out.push(entry("S9", s(nx()), vec![S9(5, "five".into())]));
    out.push(entry("C2", s(nx()), vec![C2 { v: 2.5 }]));
    out.push(entry("C1", s(nx()), vec![C1 { items: vec![C2 { v: 1.0 }], one: C2 { v: 0.0 }, tags: vec!["t".into()] }, C1::default()]));
    out.push(entry("Owner", s(nx()), vec![Owner { name: "n".into(), id: 1, nick: None }]));
    out.push(entry("Ticket", s(nx()), vec![Ticket { title: "t".into(), owner: Owner { name: "n".into(), id: 1, nick: Some("k".into()) } }]));
    out.push(entry("Ticket2", s(nx()), vec![Ticket2 { title: "t".into(), owner: Some(Owner { name: "n".into(), id: 1, nick: Some("k".into()) }) }, Ticket2 { title: "t".into(), owner: None }]));
    out.push(entry("S10", s(nx()), vec![S10 { o1: Some("s".into()), o2: Some(inner()), v: vec![1, 2] }, S10::default()]));
    out.push(entry("Tr1", s(nx()), vec![Tr1 { inner: 5 }]));
    out.push(entry("Tr2", s(nx()), vec![Tr2 { unit: (), value: inner() }]));
    let mut j = 0usize;
    let mut ne = || { j += 1; j - 1 };
    out.push(entry("U1", e(ne()), vec![U1::FooBar, U1::BazQux, U1::Renamed]));
    out.push(entry("U2", e(ne()), vec![U2::FooBar, U2::Baz]));
    out.push(entry("U3", e(ne()), vec![U3::FooBar, U3::HTTPServer]));
    out.push(entry("U4", e(ne()), vec![U4::FooBar, U4::Baz]));
    out.push(entry("E2", e(ne()), vec![E2::UnitOne, E2::NewT(inner()), E2::TupleV(1, "s".into()), E2::StructV { field_one: 1, opt_field: Some("o".into()) }, E2::StructV { field_one: 1, opt_field: None }]));
    out.push(entry("E3", e(ne()), vec![E3::UnitOne, E3::StructV { field_one: 2 }, E3::NewT(inner()), E3::Shout { field_two: 1 }]));
    out.push(entry("E4", e(ne()), vec![E4::UnitOne, E4::NewT(inner()), E4::TupleV(1, "s".into()), E4::StructV { field_one: 3 }]));
    out.push(entry("E5", e(ne()), vec![E5::StructV { field_one: 1 }, E5::NewT("s".into()), E5::TupleV(1, 7)]));
    out.push(entry("U5", e(ne()), vec![U5::FooBar, U5::Baz]));
    out.push(entry("U6", e(ne()), vec![U6::FooBar, U6::Baz]));
    out.push(entry("E5u", e(ne()), vec![E5u::StructV { field_one: 1 }, E5u::UnitOne]));
    out.push(entry("E6", e(ne()), vec![E6::A { field_one: 1, field_two: 2 }, E6::C { x: 1 }, E6::D]));
    out
}

pub fn run_case(c: &Value) -> Value {
    match c["kind"].as_str().unwrap_or("") {
        "count" => json!({"n": all().len()}),
        "catalogue" => { let a = all(); match a.get(c["idx"].as_u64().unwrap_or(0) as usize) { Some(e) => e.clone(), None => json!({"error": "no such entry"}) } }
        k => json!({"error": format!("kind {k}")}),
    }
}
