//! C02 executor: raw bytes of the first read (+ what the stream still holds) through the real `Request::read`,
//! then every accessor a fang or handler could call, each under catch_unwind.
use crate::util::*;
use ohkami::Request;
use serde_json::{json, Value};
use std::pin::Pin;

macro_rules! std_getters {
    ($($h:ident),*) => {
        fn std_getters(req: &Request) -> Vec<Value> {
            let mut v = vec![];
            $( match std::panic::catch_unwind(std::panic::AssertUnwindSafe(|| req.headers.$h().map(|s| hex(s.as_bytes())))) {
                Ok(Some(x)) => v.push(json!([stringify!($h), x])), Ok(None) => (), Err(_) => v.push(json!([stringify!($h), "panic"])) } )*
            v
        }
    };
}
for_each_req_header!(std_getters);

pub fn run_case(c: &Value) -> Value {
    let first = unhex(c["first"].as_str().unwrap());
    let more = unhex(c["more"].as_str().unwrap());
    let eof = c["eof"].as_bool().unwrap_or(true);
    let names: Vec<Vec<u8>> = c["names"].as_array().unwrap().iter().map(|n| unhex(n.as_str().unwrap())).collect();
    let mut conn = Script::new(vec![first, more], eof);
    let stalled = conn.stalled.clone();
    let mut req = Request::__verif_init();
    let mut req = unsafe { Pin::new_unchecked(&mut req) };
    let r = block_on_or_stall(&stalled, req.as_mut().__verif_read(&mut conn));
    match r {
        None => json!({"outcome": "stall"}),
        Some(Ok(None)) => json!({"outcome": "close"}),
        Some(Err(res)) => json!({"outcome": "reject", "status": res.status.code()}),
        Some(Ok(Some(()))) => {
            let guard = |f: &dyn Fn() -> Value| std::panic::catch_unwind(std::panic::AssertUnwindSafe(f)).unwrap_or(json!("panic"));
            let path = guard(&|| json!(hex(req.path.str().as_bytes())));
            let query = guard(&|| Value::Array(req.query.iter().map(|(k, v)| json!([hex(k.as_bytes()), hex(v.as_bytes())])).collect()));
            let get: Vec<Value> = names.iter().map(|n| {
                let name = std::str::from_utf8(n).unwrap();
                guard(&|| json!([hex(n), req.headers.get(name).map(|v| hex(v.as_bytes()))]))
            }).collect();
            json!({"outcome": "ok", "method": req.method.to_string(), "path": path, "query": query, "std": std_getters(&req), "get": get, "payload": req.payload().map(hex)})
        }
    }
}
