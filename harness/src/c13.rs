//! C13 executor: an application whose only route is guarded by the real BasicAuth fang (single struct or array form)
use crate::util::*;
use ohkami::prelude::*;
use ohkami::fang::BasicAuth;
use ohkami::testing::*;
use serde_json::{json, Value};
use std::sync::atomic::{AtomicBool, Ordering};

static RAN: AtomicBool = AtomicBool::new(false);
async fn inside() -> &'static str { RAN.store(true, Ordering::SeqCst); "in" }

fn pair(p: &Value) -> BasicAuth<String> { BasicAuth { username: string(unhex(p[0].as_str().unwrap())), password: string(unhex(p[1].as_str().unwrap())) } }

pub fn run_case(c: &Value) -> Value {
    let ps: Vec<BasicAuth<String>> = c["pairs"].as_array().unwrap().iter().map(pair).collect();
    let single = c["single"].as_bool().unwrap_or(false);
    let t = match (ps.len(), single) {
        (1, true) => Ohkami::new((ps[0].clone(), "/".GET(inside).POST(inside).PUT(inside).PATCH(inside).DELETE(inside))).test(),
        (1, false) => Ohkami::new(([ps[0].clone()], "/".GET(inside).POST(inside).PUT(inside).PATCH(inside).DELETE(inside))).test(),
        (2, _) => Ohkami::new(([ps[0].clone(), ps[1].clone()], "/".GET(inside).POST(inside).PUT(inside).PATCH(inside).DELETE(inside))).test(),
        (3, _) => Ohkami::new(([ps[0].clone(), ps[1].clone(), ps[2].clone()], "/".GET(inside).POST(inside).PUT(inside).PATCH(inside).DELETE(inside))).test(),
        (4, _) => Ohkami::new(([ps[0].clone(), ps[1].clone(), ps[2].clone(), ps[3].clone()], "/".GET(inside).POST(inside).PUT(inside).PATCH(inside).DELETE(inside))).test(),
        _ => panic!("harness: 1..4 pairs"),
    };
    RAN.store(false, Ordering::SeqCst);
    let mut req = match c["method"].as_str().unwrap_or("GET") { "GET" => TestRequest::GET("/"), "POST" => TestRequest::POST("/"), "PUT" => TestRequest::PUT("/"), "PATCH" => TestRequest::PATCH("/"),
        "DELETE" => TestRequest::DELETE("/"), "HEAD" => TestRequest::HEAD("/"), "OPTIONS" => TestRequest::OPTIONS("/"), m => panic!("harness: method {m}") };
    if let Some(a) = c["auth"].as_str() { req = req.header("Authorization", string(unhex(a))) }
    let (status, challenge) = rt().block_on(async {
        let res = t.oneshot(req).await;
        (res.status().code(), res.header("WWW-Authenticate").map(|s| s.to_string()))
    });
    json!({"ran": RAN.load(Ordering::SeqCst), "status": status, "challenge": challenge.map(|s| s.starts_with("Basic")).unwrap_or(false)})
}
