//! C15 executor: applications assembled from a catalogue of 26 typed handlers (every IntoHandler shape) (fn items) under plain / JWT / BasicAuth / Tag fangs at any
//! level; returns the generated OpenAPI document, and for every documented operation the outcome of a request built from it.
//! App  = {"fangs": [Fang], "items": [Item]}      Fang = {"k": "plain" | "jwt" | "basic" | "basic2" | "key_header" | "key_query" | "key_cookie" | "tag", "id": int}
//! Item = {"route": "/a/:x", "methods": {"GET": handler id, ..}, "local": [Fang]} | {"mount": "/api/:v", "app": App}
#![allow(non_snake_case, dead_code)]
use crate::util::*;
use ohkami::prelude::*;
use ohkami::__verif::Routing;
use ohkami::fang::{BasicAuth, JWT};
use ohkami::format::{Multipart, URLEncoded};
use ohkami::openapi::{self, Schema};
use ohkami::testing::*;
use ohkami::typed::status;
use serde_json::{json, Value};
use std::sync::atomic::{AtomicI64, Ordering};

static RAN: AtomicI64 = AtomicI64::new(-1);
fn ran(k: i64) { RAN.store(k, Ordering::SeqCst) }
fn leak(s: &str) -> &'static str { Box::leak(s.to_string().into_boxed_str()) }

#[derive(Deserialize, Schema)] struct QueryA { q: String, page: Option<u32> }
#[derive(Deserialize, Schema)] #[openapi(component)] struct QueryB { tag: String }
#[derive(Deserialize, Schema)] struct QueryC { name: String, age: u8, nick: Option<String>, zone: String, #[serde(default)] limit: u32 }
#[derive(Deserialize, Schema)] struct QueryD { d: String }
#[derive(Deserialize, Schema)] struct QueryE { e: u8, f: Option<String> }
#[derive(Deserialize, Schema)] #[openapi(component)] struct BodyJ { name: String, age: u8 }
#[derive(Deserialize, Schema)] struct BodyU { a: String, #[serde(default)] b: Option<i32> }
#[derive(Deserialize, Schema)] struct BodyM { title: String }
#[derive(Serialize, Schema)] #[openapi(component)] struct Out { id: u64, label: String }
#[derive(Serialize, Deserialize, Clone)] struct Claims { sub: String }

fn out(id: u64) -> Out { Out { id, label: "l".into() } }

enum MyErr { Gone }
impl IntoResponse for MyErr {
    fn into_response(self) -> Response { Response::InternalServerError() }
    fn openapi_responses() -> openapi::Responses {
        openapi::Responses::new([(500, openapi::Response::when("went wrong")), (404, openapi::Response::when("not there"))])
    }
}

async fn h0() -> &'static str { ran(0); "h0" }
async fn h1(id: u32) -> String { ran(1); format!("{id}") }
async fn h2((a, b): (String, u64)) -> JSON<Out> { ran(2); let _ = a; JSON(out(b)) }
async fn h3(Query(q): Query<QueryA>) -> JSON<Vec<Out>> { ran(3); let _ = (q.q, q.page); JSON(vec![out(1)]) }
async fn h4(JSON(b): JSON<BodyJ>) -> status::Created<JSON<Out>> { ran(4); let _ = b.name; status::Created(JSON(out(b.age as u64))) }
async fn h5(id: u64, JSON(b): JSON<BodyJ>) -> Result<JSON<Out>, MyErr> { ran(5); let _ = (b.name, b.age); if id == u64::MAX { Err(MyErr::Gone) } else { Ok(JSON(out(id))) } }
async fn h6(URLEncoded(b): URLEncoded<BodyU>) -> status::NoContent { ran(6); let _ = (b.a, b.b); status::NoContent }
async fn h7(Multipart(b): Multipart<BodyM>) -> status::OK<String> { ran(7); status::OK(b.title) }
async fn h8(id: String, Query(q): Query<QueryB>, JSON(b): JSON<BodyJ>) -> Result<status::Created<JSON<Out>>, MyErr> { ran(8); let _ = (id, q.tag, b.name, b.age); Ok(status::Created(JSON(out(8)))) }
async fn h9() -> Response { ran(9); Response::OK() }
async fn h10(b: Option<JSON<BodyJ>>) -> Status { ran(10); let _ = b.map(|JSON(b)| (b.name, b.age)); Status::Accepted }
async fn h12(Query(q): Query<QueryC>) -> String { ran(12); let _ = (q.age, q.nick, q.zone, q.limit); q.name }
async fn h11((id,): (i64,)) -> Result<String, status::NotFound<String>> { ran(11); if id < 0 { Err(status::NotFound("no".into())) } else { Ok("yes".into()) } }
// every remaining IntoHandler shape: (no param | P | (P1,) | (P1, P2)) x 1-4 extractors, each extractor of a handler documented differently
async fn h13(Query(q): Query<QueryA>, JSON(b): JSON<BodyJ>) -> String { ran(13); let _ = (q.q, q.page, b.name, b.age); String::new() }
async fn h14(Query(q): Query<QueryB>, Query(d): Query<QueryD>, URLEncoded(b): URLEncoded<BodyU>) -> status::NoContent { ran(14); let _ = (q.tag, d.d, b.a, b.b); status::NoContent }
async fn h15(Query(q): Query<QueryB>, Query(d): Query<QueryD>, Query(e): Query<QueryE>, JSON(b): JSON<BodyJ>) -> JSON<Out> { ran(15); let _ = (q.tag, d.d, e.e, e.f, b.name); JSON(out(15)) }
async fn h16(id: u32, Query(d): Query<QueryD>, Query(e): Query<QueryE>, JSON(b): JSON<BodyJ>) -> status::Created<JSON<Out>> { ran(16); let _ = (d.d, e.e, e.f, b.name); status::Created(JSON(out(id as u64))) }
async fn h17(id: String, Query(q): Query<QueryB>, Query(d): Query<QueryD>, Query(e): Query<QueryE>, Multipart(b): Multipart<BodyM>) -> String { ran(17); let _ = (id, q.tag, d.d, e.e, e.f); b.title }
async fn h18((id,): (u8,), Query(d): Query<QueryD>) -> String { ran(18); let _ = id; d.d }
async fn h19((id,): (String,), JSON(b): JSON<BodyJ>, Query(e): Query<QueryE>) -> Result<String, MyErr> { ran(19); let _ = (id, b.name, e.e, e.f); Ok(String::new()) }
async fn h20((id,): (u64,), Query(d): Query<QueryD>, JSON(b): JSON<BodyJ>, Query(e): Query<QueryE>) -> JSON<Out> { ran(20); let _ = (d.d, b.name, e.e, e.f); JSON(out(id)) }
async fn h21((id,): (String,), Query(q): Query<QueryB>, Query(d): Query<QueryD>, Query(e): Query<QueryE>, URLEncoded(b): URLEncoded<BodyU>) -> status::NoContent { ran(21); let _ = (id, q.tag, d.d, e.e, e.f, b.a, b.b); status::NoContent }
async fn h22((a, b): (u16, String), JSON(j): JSON<BodyJ>) -> status::Created<JSON<Out>> { ran(22); let _ = (b, j.name); status::Created(JSON(out(a as u64))) }
async fn h23((a, b): (String, String), Query(d): Query<QueryD>, JSON(j): JSON<BodyJ>) -> String { ran(23); let _ = (a, b, j.name); d.d }
async fn h24((a, b): (u32, u32), Query(d): Query<QueryD>, Query(e): Query<QueryE>, JSON(j): JSON<BodyJ>) -> JSON<Out> { ran(24); let _ = (b, d.d, e.e, e.f, j.name); JSON(out(a as u64)) }
async fn h25((a, b): (String, u8), Query(q): Query<QueryB>, Query(d): Query<QueryD>, JSON(j): JSON<BodyJ>, Query(e): Query<QueryE>) -> Result<JSON<Out>, MyErr> { ran(25); let _ = (a, b, q.tag, d.d, j.name, e.e, e.f); Ok(JSON(out(25))) }

/// an API-key fang: the key `k15` is expected in the header `X-Key`, the query parameter `key` or the cookie `key`, and the fang documents
/// exactly that (`SecurityScheme::APIKey(.., APIKey::header | query | cookie)`)
// `Option<Query<T>>`: Query never answers None, so a required field of T is still required of the request — and must be documented so
async fn h26(q: Option<Query<QueryE>>) -> String { ran(26); let _ = q.map(|Query(e)| (e.e, e.f)); String::new() }
async fn h27((id,): (u8,), q: Option<Query<QueryD>>, JSON(b): JSON<BodyJ>) -> String { ran(27); let _ = (id, q.map(|Query(d)| d.d), b.name); String::new() }

#[derive(Clone)]
struct KeyFang(&'static str);          // "plain": a fang that asks for nothing and documents nothing (one type for the four kinds: fewer instantiations of the handler catalogue)
impl FangAction for KeyFang {
    async fn fore<'a>(&'a self, req: &'a mut Request) -> Result<(), Response> {
        let ok = match self.0 {
            "plain" => true,
            "header" => req.headers.get("X-Key") == Some("k15"),
            "query" => req.query.iter().any(|(k, v)| k == "key" && v == "k15"),
            _ => req.headers.Cookie().map(|c| c.split("; ").any(|kv| kv == "key=k15")).unwrap_or(false),
        };
        if ok { Ok(()) } else { Err(Response::Unauthorized()) }
    }
    fn openapi_map_operation(&self, operation: openapi::Operation) -> openapi::Operation {
        use openapi::security::{SecurityScheme, APIKey};
        match self.0 {
            "plain" => operation,
            "header" => operation.security(SecurityScheme::APIKey("keyHeader", APIKey::header("X-Key")), &[]),
            "query" => operation.security(SecurityScheme::APIKey("keyQuery", APIKey::query("key")), &[]),
            _ => operation.security(SecurityScheme::APIKey("keyCookie", APIKey::cookie("key")), &[]),
        }
    }
}

const SECRET: &str = "c15-secret";
fn jwt() -> JWT<Claims> { JWT::<Claims>::default(SECRET) }
fn basic() -> BasicAuth<&'static str> { BasicAuth { username: "u", password: "p" } }

macro_rules! with_fang {
    ($s:expr, |$f:ident| $body:expr) => {
        match $s["k"].as_str().unwrap() {
            "plain" | "key_header" | "key_query" | "key_cookie" => { let $f = KeyFang(match $s["k"].as_str().unwrap() { "plain" => "plain", "key_header" => "header", "key_query" => "query", _ => "cookie" }); $body }
            "jwt" => { let $f = jwt(); $body }
            "basic" => { let $f = basic(); $body }
            "basic2" => { let $f = [basic(), BasicAuth { username: "u2", password: "p2" }]; $body }          // the array form of the fang
            "tag" => { let $f = openapi::Tag(leak(&format!("t{}", $s["id"].as_i64().unwrap_or(0)))); $body }
            k => panic!("harness: fang kind {k}"),
        }
    };
}

type HS = ohkami::__verif::HandlerSet;

macro_rules! set_method {
    ($hs:expr, $route:expr, $m:expr, $h:expr) => {
        match ($hs, $m) {
            (None, "GET") => $route.GET($h), (None, "PUT") => $route.PUT($h), (None, "POST") => $route.POST($h),
            (None, "PATCH") => $route.PATCH($h), (None, "DELETE") => $route.DELETE($h),
            (Some(hs), "GET") => hs.GET($h), (Some(hs), "PUT") => hs.PUT($h), (Some(hs), "POST") => hs.POST($h),
            (Some(hs), "PATCH") => hs.PATCH($h), (Some(hs), "DELETE") => hs.DELETE($h),
            (_, m) => panic!("harness: method {m}"),
        }
    };
}

macro_rules! add_with_local {
    ($hs:expr, $route:expr, $m:expr, $local:expr, $h:expr) => {
        match $local.len() {
            0 => set_method!($hs, $route, $m, $h),
            1 => with_fang!($local[0], |f| set_method!($hs, $route, $m, (f, $h))),
            2 => with_fang!($local[0], |f| with_fang!($local[1], |g| set_method!($hs, $route, $m, (f, g, $h)))),
            n => panic!("harness: {n} local fangs"),
        }
    };
}

fn add_handler(hs: Option<HS>, route: &'static str, m: &str, local: &[Value], k: i64) -> HS {
    match k {
        0 => add_with_local!(hs, route, m, local, h0), 1 => add_with_local!(hs, route, m, local, h1), 2 => add_with_local!(hs, route, m, local, h2),
        3 => add_with_local!(hs, route, m, local, h3), 4 => add_with_local!(hs, route, m, local, h4), 5 => add_with_local!(hs, route, m, local, h5),
        6 => add_with_local!(hs, route, m, local, h6), 7 => add_with_local!(hs, route, m, local, h7), 8 => add_with_local!(hs, route, m, local, h8),
        9 => add_with_local!(hs, route, m, local, h9), 10 => add_with_local!(hs, route, m, local, h10), 11 => add_with_local!(hs, route, m, local, h11), 12 => add_with_local!(hs, route, m, local, h12),
        13 => add_with_local!(hs, route, m, local, h13), 14 => add_with_local!(hs, route, m, local, h14), 15 => add_with_local!(hs, route, m, local, h15), 16 => add_with_local!(hs, route, m, local, h16), 17 => add_with_local!(hs, route, m, local, h17), 18 => add_with_local!(hs, route, m, local, h18), 19 => add_with_local!(hs, route, m, local, h19), 20 => add_with_local!(hs, route, m, local, h20), 21 => add_with_local!(hs, route, m, local, h21), 22 => add_with_local!(hs, route, m, local, h22), 23 => add_with_local!(hs, route, m, local, h23), 24 => add_with_local!(hs, route, m, local, h24), 25 => add_with_local!(hs, route, m, local, h25), 26 => add_with_local!(hs, route, m, local, h26), 27 => add_with_local!(hs, route, m, local, h27),
        k => panic!("harness: handler {k}"),
    }
}

fn build(app: &Value) -> Ohkami {
    let fangs: Vec<Value> = app["fangs"].as_array().cloned().unwrap_or_default();
    let mut oh = match fangs.len() {
        0 => Ohkami::with((), ()),
        1 => with_fang!(fangs[0], |f| Ohkami::with((f,), ())),
        2 => with_fang!(fangs[0], |f| with_fang!(fangs[1], |g| Ohkami::with((f, g), ()))),
        3 => with_fang!(fangs[0], |f| with_fang!(fangs[1], |g| with_fang!(fangs[2], |h| Ohkami::with((f, g, h), ())))),
        n => panic!("harness: {n} fangs"),
    };
    for item in app["items"].as_array().unwrap() {
        if let Some(m) = item.get("mount").and_then(Value::as_str) {
            let sub = build(&item["app"]);
            Routing::apply(leak(m).By(sub), &mut oh);
        } else {
            let route = leak(item["route"].as_str().unwrap());
            let local: Vec<Value> = item["local"].as_array().cloned().unwrap_or_default();
            let mut hs: Option<HS> = None;
            for (m, k) in item["methods"].as_object().unwrap() { hs = Some(add_handler(hs, route, m, &local, k.as_i64().unwrap())); }
            if let Some(hs) = hs { Routing::apply(hs, &mut oh); }
        }
    }
    oh
}

/// a request built from a documented operation: `{p}` -> "7", the documented query parameters, a body of the documented media type, the documented credentials
fn probe(t: &TestingOhkami, template: &str, method: &str, op: &Value, schemes: &Value) -> Value {
    let mut path = String::new();
    let mut in_brace = false;
    for ch in template.chars() { match ch { '{' => { in_brace = true; path.push('7') } '}' => in_brace = false, c if !in_brace => path.push(c), _ => {} } }
    let mut query = vec![];
    for p in op["parameters"].as_array().cloned().unwrap_or_default() {
        if p["in"] == "query" { query.push(format!("{}={}", p["name"].as_str().unwrap_or(""), if p["schema"]["type"] == "integer" { "1" } else { "x" })); }
    }
    // an API key goes where the document says: `in` and `name` of the scheme
    let mut key_headers: Vec<(String, String)> = vec![];
    for s in op["security"].as_array().cloned().unwrap_or_default().into_iter().take(1) {          // the entries of `security` are ALTERNATIVES (one suffices): the client picks the first
        for name in s.as_object().map(|o| o.keys().cloned().collect::<Vec<_>>()).unwrap_or_default() {
            let sch = &schemes[&name];
            if sch["type"] == "apiKey" {
                let n = sch["name"].as_str().unwrap_or("").to_string();
                match sch["in"].as_str().unwrap_or("") {
                    "query" => query.push(format!("{n}=k15")),
                    "cookie" => key_headers.push(("Cookie".into(), format!("{n}=k15"))),
                    _ => key_headers.push((n, "k15".into())),
                }
            }
        }
    }
    if !query.is_empty() { path += "?"; path += &query.join("&"); }
    let p = leak(&path);
    let mut req = match method { "get" => TestRequest::GET(p), "put" => TestRequest::PUT(p), "post" => TestRequest::POST(p), "patch" => TestRequest::PATCH(p), "delete" => TestRequest::DELETE(p), m => return json!({"error": format!("method {m}")}) };
    if let Some(content) = op["requestBody"]["content"].as_object() {
        for mime in content.keys() {
            req = match mime.as_str() {
                "application/json" => req.content("application/json", br#"{"name":"n","age":3}"#.to_vec()),
                "application/x-www-form-urlencoded" => req.content("application/x-www-form-urlencoded", b"a=x".to_vec()),
                "multipart/form-data" => req.content("multipart/form-data; boundary=XbX", b"--XbX\r\nContent-Disposition: form-data; name=\"title\"\r\n\r\nt\r\n--XbX--\r\n".to_vec()),
                "text/plain" => req.content("text/plain", b"t".to_vec()),
                _ => req,
            };
        }
    }
    for s in op["security"].as_array().cloned().unwrap_or_default().into_iter().take(1) {          // the entries of `security` are ALTERNATIVES (one suffices): the client picks the first
        for name in s.as_object().map(|o| o.keys().cloned().collect::<Vec<_>>()).unwrap_or_default() {
            req = match name.as_str() {
                "jwtAuth" => { let tok: String = jwt().issue(Claims { sub: "s".into() }).into(); req.header("Authorization", format!("Bearer {tok}")) }
                "basicAuth" => req.header("Authorization", "Basic dTpw"),
                _ => req,
            };
        }
    }
    for (k, v) in key_headers { req = req.header(leak(&k), v); }
    RAN.store(-1, Ordering::SeqCst);
    let status = rt().block_on(async { t.oneshot(req).await.status().code() });
    json!({"path": template, "method": method, "request": path, "status": status, "ran": RAN.load(Ordering::SeqCst)})
}

pub fn run_case(c: &Value) -> Value {
    let oh = build(&c["app"]);
    let bytes = oh.__openapi_document_bytes__(openapi::OpenAPI { title: "t", version: "0", servers: &[openapi::Server::at("http://localhost")] });
    let doc: Value = match serde_json::from_slice(&bytes) { Ok(d) => d, Err(e) => return json!({"outcome": "not-json", "error": e.to_string(), "text": string(bytes)}) };
    let t = oh.test();
    let mut probes = vec![];
    if let Some(paths) = doc["paths"].as_object() {
        for (template, ops) in paths {
            for (method, op) in ops.as_object().cloned().unwrap_or_default() { probes.push(probe(&t, template, &method, &op, &doc["components"]["securitySchemes"])); }
        }
    }
    json!({"outcome": "ok", "doc": doc, "probes": probes})
}
