//! C08/C09 executor for the URL-encoded codec: `from_bytes::<T>` / `to_string` for a catalogue of target types
//! (the catalogue and the type descriptors of tools/props/c09.py are kept in step by hand; a mismatch shows as a disagreement)
#![allow(non_camel_case_types)]
use crate::util::{hex, unhex};
use serde::{Deserialize, Serialize};
use serde_json::{json, Value as J};
use std::collections::BTreeMap;

pub trait Canon { fn canon(&self) -> J; }
pub trait Build: Sized { fn build(j: &J) -> Self; }
fn unhex_s(j: &J) -> String { String::from_utf8(unhex(j["s"].as_str().unwrap())).unwrap() }
macro_rules! bint { ($($t:ty),*) => {$( impl Build for $t { fn build(j: &J) -> Self { j["i"].as_str().unwrap().parse().unwrap() } } )*} }
bint!(u8, u16, u32, u64, i8, i16, i32, i64);
// floats by their bit patterns (never compared as numbers on the Python side)
impl Build for f64 { fn build(j: &J) -> Self { f64::from_bits(u64::from_str_radix(j["fbits"].as_str().unwrap(), 16).unwrap()) } }
impl Build for f32 { fn build(j: &J) -> Self { f32::from_bits(u32::from_str_radix(j["fbits"].as_str().unwrap(), 16).unwrap()) } }
impl Canon for f64 { fn canon(&self) -> J { json!({"fbits": format!("{:016x}", self.to_bits())}) } }
impl Canon for f32 { fn canon(&self) -> J { json!({"fbits": format!("{:08x}", self.to_bits())}) } }
impl Build for bool { fn build(j: &J) -> Self { j["b"].as_bool().unwrap() } }
impl Build for char { fn build(j: &J) -> Self { char::from_u32(j["c"].as_u64().unwrap() as u32).unwrap() } }
impl Build for String { fn build(j: &J) -> Self { unhex_s(j) } }
impl Build for &'static str { fn build(j: &J) -> Self { Box::leak(unhex_s(j).into_boxed_str()) } }
impl Build for () { fn build(_: &J) -> Self {} }
impl<T: Build> Build for Option<T> { fn build(j: &J) -> Self { if j == "none" { None } else { Some(T::build(&j["some"])) } } }
impl<T: Build> Build for Vec<T> { fn build(j: &J) -> Self { j["seq"].as_array().unwrap().iter().map(T::build).collect() } }
impl<T: Build> Build for BTreeMap<String, T> { fn build(j: &J) -> Self { j["map"].as_array().unwrap().iter().map(|kv| (String::build(&kv[0]), T::build(&kv[1]))).collect() } }
macro_rules! int { ($($t:ty),*) => {$( impl Canon for $t { fn canon(&self) -> J { json!({"i": self.to_string()}) } } )*} }
int!(u8, u16, u32, u64, i8, i16, i32, i64);
impl Canon for bool { fn canon(&self) -> J { json!({"b": *self}) } }
impl Canon for char { fn canon(&self) -> J { json!({"c": *self as u32}) } }
impl Canon for String { fn canon(&self) -> J { json!({"s": hex(self.as_bytes())}) } }
impl Canon for &str { fn canon(&self) -> J { json!({"s": hex(self.as_bytes())}) } }
impl Canon for () { fn canon(&self) -> J { json!("unit") } }
impl<T: Canon> Canon for Option<T> { fn canon(&self) -> J { match self { None => json!("none"), Some(v) => json!({"some": v.canon()}) } } }
impl<T: Canon> Canon for Vec<T> { fn canon(&self) -> J { json!({"seq": self.iter().map(Canon::canon).collect::<Vec<_>>()}) } }
impl<T: Canon> Canon for BTreeMap<String, T> { fn canon(&self) -> J { json!({"map": self.iter().map(|(k, v)| json!([k.canon(), v.canon()])).collect::<Vec<_>>()}) } }

macro_rules! st { ($name:ident { $($(#[$m:meta])* $f:ident : $t:ty),* }) => {
    #[derive(Deserialize, Serialize)] #[allow(dead_code)] struct $name { $($(#[$m])* $f: $t),* }
    impl Canon for $name { fn canon(&self) -> J { json!({"struct": [$( json!([stringify!($f), self.$f.canon()]) ),*]}) } }
    impl Build for $name { #[allow(unused_assignments)] fn build(j: &J) -> Self { let a = j["struct"].as_array().unwrap(); let mut i = 0; $( let $f = <$t as Build>::build(&a[i][1]); i += 1; )* let _ = i; Self { $($f),* } } }
} }
#[derive(Deserialize, Serialize)] enum E { A, B, Cc }
impl Build for E { fn build(j: &J) -> Self { match unhex(j["var"].as_str().unwrap()).as_slice() { b"A" => E::A, b"B" => E::B, _ => E::Cc } } }
impl Canon for E { fn canon(&self) -> J { json!({"var": hex(match self { E::A => b"A", E::B => b"B", E::Cc => b"Cc" })}) } }
// variant names that the writer has to escape (rename / rename_all): they must read back
#[derive(Deserialize, Serialize)] enum E2 { #[serde(rename = "not-set")] NotSet, #[serde(rename = "a b")] Ab, #[serde(rename = "ü")] U, #[serde(rename = "snake_case")] Sn, Plain }
const E2N: [(&str, fn() -> E2); 5] = [("not-set", || E2::NotSet), ("a b", || E2::Ab), ("ü", || E2::U), ("snake_case", || E2::Sn), ("Plain", || E2::Plain)];
impl Build for E2 { fn build(j: &J) -> Self { let n = unhex(j["var"].as_str().unwrap()); E2N.iter().find(|(k, _)| k.as_bytes() == n.as_slice()).expect("harness: E2 variant").1() } }
impl Canon for E2 { fn canon(&self) -> J { json!({"var": hex(match self { E2::NotSet => "not-set", E2::Ab => "a b", E2::U => "ü", E2::Sn => "snake_case", E2::Plain => "Plain" }.as_bytes())}) } }
#[derive(Deserialize, Serialize)] struct N(u16);
impl Build for N { fn build(j: &J) -> Self { N(u16::build(&j["nt"])) } }
impl Canon for N { fn canon(&self) -> J { json!({"nt": self.0.canon()}) } }

st!(S0 { id: u32, name: String });
st!(S1 { a: Option<u32>, b: bool, c: Option<String> });
#[derive(Deserialize, Serialize)] struct S2<'a> { s: &'a str, t: String }
impl<'a> Canon for S2<'a> { fn canon(&self) -> J { json!({"struct": [json!(["s", self.s.canon()]), json!(["t", self.t.canon()])]}) } }
impl Build for S2<'static> { fn build(j: &J) -> Self { let a = j["struct"].as_array().unwrap(); S2 { s: <&'static str>::build(&a[0][1]), t: String::build(&a[1][1]) } } }
st!(S3 { e: E, o: Option<E> });
st!(S4 { v: Vec<String>, n: Vec<u8> });
st!(S6 { c: char, i: i8 });
st!(S7 { u: (), n: N });
st!(S8 { #[serde(default)] d: u32, x: String });
st!(S9 { w: Vec<Option<u16>>, z: i64 });
// keys that the writer has to escape (serde rename)
#[derive(Deserialize, Serialize)] struct S13 { #[serde(rename = "user-name")] a: String, #[serde(rename = "a b")] b: u8, #[serde(rename = "ü")] c: Option<String>, #[serde(rename = "k=&%")] d: bool }
impl Canon for S13 { fn canon(&self) -> J { json!({"struct": [["user-name", self.a.canon()], ["a b", self.b.canon()], ["ü", self.c.canon()], ["k=&%", self.d.canon()]]}) } }
impl Build for S13 { fn build(j: &J) -> Self { let a = j["struct"].as_array().unwrap(); S13 { a: String::build(&a[0][1]), b: u8::build(&a[1][1]), c: <Option<String>>::build(&a[2][1]), d: bool::build(&a[3][1]) } } }
st!(S12 { f: f64, g: f32, o: Option<f64>, v: Vec<f32> });
st!(S11 { m: E2, o: Option<E2>, v: Vec<E2> });
st!(S10 { h: u64, g: i16, k: i32, l: Option<u64>, m: Vec<u64> });   // with S0-S9: every integer width the codec has a method for

fn run<'de, T: Deserialize<'de> + Canon>(input: &'de [u8]) -> J {
    match ohkami_lib::serde_urlencoded::from_bytes::<T>(input) {
        Ok(v) => json!({"outcome": "ok", "value": v.canon()}),
        Err(_) => json!({"outcome": "err"}),
    }
}

fn ser<T: Build + Serialize + Canon + for<'de> Deserialize<'de>>(v: &J) -> J {
    let t = T::build(v);
    match ohkami_lib::serde_urlencoded::to_string(&t) {
        Err(_) => json!({"outcome": "ser-err"}),
        Ok(text) => { let back = run::<T>(text.as_bytes()); json!({"outcome": "ok", "text": hex(text.as_bytes()), "back": back, "same": back["value"] == t.canon()}) }
    }
}
fn ser2(v: &J) -> J {   // S2 borrows: decode into the borrowed form from the text we own
    let t = <S2<'static> as Build>::build(v);
    match ohkami_lib::serde_urlencoded::to_string(&t) {
        Err(_) => json!({"outcome": "ser-err"}),
        Ok(text) => { let back = run::<S2>(text.as_bytes()); json!({"outcome": "ok", "text": hex(text.as_bytes()), "back": back, "same": back["value"] == t.canon()}) }
    }
}


fn query_iter(q: &[u8], prev: Option<&[u8]>, noq: bool) -> J {
    use crate::util::*;
    // no "?" at all when the query is absent (`noq`)
    let mut raw = if noq { b"GET /".to_vec() } else { let mut r = b"GET /?".to_vec(); r.extend_from_slice(q); r }; raw.extend_from_slice(b" HTTP/1.1\r\nX-A: k=v&w=x\r\n\r\n");
    let mut req = ohkami::Request::__verif_init();
    let mut req = unsafe { std::pin::Pin::new_unchecked(&mut req) };
    if let Some(p) = prev {
        // the request object is reused on a keep-alive connection: an earlier request with another query was read into it, then `clear`
        let mut first = b"GET /?".to_vec(); first.extend_from_slice(p); first.extend_from_slice(b" HTTP/1.1\r\n\r\n");
        let mut conn = Script::new(vec![first], true);
        let stalled = conn.stalled.clone();
        let _ = block_on_or_stall(&stalled, req.as_mut().__verif_read(&mut conn));
        unsafe { req.as_mut().get_unchecked_mut() }.__verif_clear();
    }
    let mut conn = Script::new(vec![raw], true);
    let stalled = conn.stalled.clone();
    match block_on_or_stall(&stalled, req.as_mut().__verif_read(&mut conn)) {
        Some(Ok(Some(()))) => json!({"pairs": req.query.iter().map(|(k, v)| json!([hex(k.as_bytes()), hex(v.as_bytes())])).collect::<Vec<_>>()}),
        _ => json!({"outcome": "refused"}),
    }
}

pub fn run_case(c: &J) -> J {
    if let Some(q) = c.get("query").and_then(J::as_str) { let prev = c.get("prev").and_then(J::as_str).map(unhex); return query_iter(&unhex(q), prev.as_deref(), c["noq"].as_bool() == Some(true)) }
    let tid = c["tid"].as_u64().unwrap();
    if !c["value"].is_null() {
        let v = c["value"].clone();
        return match tid {
            0 => ser::<S0>(&v), 1 => ser::<S1>(&v), 2 => ser2(&v), 3 => ser::<S3>(&v), 4 => ser::<S4>(&v),
            5 => ser::<BTreeMap<String, String>>(&v), 6 => ser::<S6>(&v), 7 => ser::<S7>(&v), 8 => ser::<S8>(&v), 9 => ser::<S9>(&v), 10 => ser::<S10>(&v), 11 => ser::<S11>(&v), 12 => ser::<S12>(&v), 13 => ser::<S13>(&v),
            _ => json!({"outcome": "bad-tid"}),
        }
    }
    let input = unhex(c["input"].as_str().unwrap());
    match tid {
        0 => run::<S0>(&input), 1 => run::<S1>(&input), 2 => run::<S2>(&input), 3 => run::<S3>(&input),
        4 => run::<S4>(&input), 5 => run::<BTreeMap<String, String>>(&input), 6 => run::<S6>(&input),
        7 => run::<S7>(&input), 8 => run::<S8>(&input), 9 => run::<S9>(&input), 10 => run::<S10>(&input), 11 => run::<S11>(&input), 12 => run::<S12>(&input), 13 => run::<S13>(&input),
        _ => json!({"outcome": "bad-tid"}),
    }
}
