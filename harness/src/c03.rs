//! C03 executor: build a `Response` by a sequence of public operations, `complete` it, `send` it into a Vec.
use crate::util::*;
use ohkami::{Ohkami, Response, Route, Status};
use serde_json::{json, Value};
use std::borrow::Cow;

macro_rules! std_set {
    ($($h:ident),*) => {
        fn std_set(res: &mut Response, name: &str, v: Cow<'static, str>) { match name { $( stringify!($h) => { res.headers.set().$h(v); } )* o => panic!("harness: unknown header {o}") } }
        fn std_remove(res: &mut Response, name: &str) { match name { $( stringify!($h) => { res.headers.set().$h(None::<Cow<'static, str>>); } )* o => panic!("harness: unknown header {o}") } }
        fn std_append(res: &mut Response, name: &str, v: String) { match name { $( stringify!($h) => { res.headers.set().$h(ohkami::header::append(v)); } )* o => panic!("harness: unknown header {o}") } }
    };
}
for_each_res_header!(std_set);

#[derive(serde::Serialize)] #[serde(transparent)] struct AnyJson(Value);
impl ohkami::openapi::Schema for AnyJson { fn schema() -> impl Into<ohkami::openapi::schema::SchemaRef> { ohkami::openapi::object() } }

/// the response the operation history builds
fn build(c: &Value) -> Response {
    let mut res = Response::new(Status::from(c["status"].as_u64().unwrap() as u16));
    for (op_index, op) in c["ops"].as_array().unwrap().iter().enumerate() {
        let first_op = op_index == 0;
        let a = op.as_array().unwrap();
        let g = |i: usize| a[i].as_str().unwrap();
        match g(0) {
            "set" => std_set(&mut res, g(1), Cow::Owned(string(unhex(g(2))))),
            "sset" => std_set(&mut res, g(1), Cow::Borrowed(leak_str(unhex(g(2))))),
            "remove" => std_remove(&mut res, g(1)),
            "append" => std_append(&mut res, g(1), string(unhex(g(2)))),
            "xset" => { res.headers.set().x(leak_str(unhex(g(1))), string(unhex(g(2)))); }
            "xremove" => { res.headers.set().x(leak_str(unhex(g(1))), None::<Cow<'static, str>>); }
            "xappend" => { res.headers.set().x(leak_str(unhex(g(1))), ohkami::header::append(string(unhex(g(2))))); }
            "cookie" => {
                let d = &a[3];
                let (name, value) = (leak_str(unhex(g(1))), string(unhex(g(2))));
                res.headers.set().SetCookie(name, value, |mut b| {
                    if let Some(x) = d["expires"].as_str() { b = b.Expires(string(unhex(x))) }
                    if let Some(x) = d["max_age"].as_u64() { b = b.MaxAge(x) }
                    if let Some(x) = d["domain"].as_str() { b = b.Domain(string(unhex(x))) }
                    if let Some(x) = d["path"].as_str() { b = b.Path(string(unhex(x))) }
                    if d["secure"].as_bool() == Some(true) { b = b.Secure() }
                    if d["http_only"].as_bool() == Some(true) { b = b.HttpOnly() }
                    match d["same_site"].as_str() { Some("Strict") => b = b.SameSiteStrict(), Some("Lax") => b = b.SameSiteLax(), Some("None") => b = b.SameSiteNone(), _ => () }
                    b
                });
            }
            "text" => res.set_text(string(unhex(g(1)))),
            "html" => res.set_html(string(unhex(g(1)))),
            "json" => res.set_json(serde_json::from_slice::<Value>(&unhex(g(1))).expect("harness: json op needs JSON")),
            "payload" => res.set_payload(leak_str(unhex(g(1))), unhex(g(2))),
            "drop" => { let _ = res.drop_content(); }
            "stream" => {
                // an event stream as content.  As the first operation: the response a DataStream handler returns, under the status of the case;
                // later in a history: `Response::set_stream` on the response as it stands (a fang replacing or re-setting the content)
                let msgs: Vec<String> = a[1].as_array().unwrap().iter().map(|m| string(unhex(m.as_str().unwrap()))).collect();
                if first_op {
                    let status = res.status;
                    res = ohkami::IntoResponse::into_response(ohkami::sse::DataStream::<String>::new(move |mut s| async move { for m in msgs { s.send(m); } }));
                    res.status = status;
                } else {
                    struct VecStream(std::vec::IntoIter<String>);
                    impl ohkami::util::Stream for VecStream {
                        type Item = String;
                        fn poll_next(mut self: std::pin::Pin<&mut Self>, _: &mut std::task::Context<'_>) -> std::task::Poll<Option<String>> { std::task::Poll::Ready(self.0.next()) }
                    }
                    res.set_stream(VecStream(msgs.into_iter()));
                }
            }
            "typed" => {
                // a typed responder as a handler returns it: ["typed", kind, status name, payload]; it starts the response (the case's status is its status)
                use ohkami::typed::status as st;
                use ohkami::format::{JSON, HTML};
                use ohkami::IntoResponse;
                let body = unhex(g(3));
                macro_rules! with_value { ($b:expr) => { match g(2) {
                    "OK" => st::OK($b).into_response(), "Created" => st::Created($b).into_response(), "MultipleChoice" => st::MultipleChoice($b).into_response(),
                    "BadRequest" => st::BadRequest($b).into_response(), "NotFound" => st::NotFound($b).into_response(), "InternalServerError" => st::InternalServerError($b).into_response(),
                    o => panic!("harness: typed status {o}") } } }
                res = match g(1) {
                    "string" => with_value!(string(body)),
                    "str" => with_value!(leak_str(body)),
                    "html" => with_value!(HTML(string(body))),
                    "json" => with_value!(JSON(AnyJson(serde_json::from_slice::<Value>(&body).expect("harness: typed json needs JSON")))),
                    "unit" => with_value!(()),
                    "bare" => match g(2) { "Continue" => st::Continue.into_response(), "EarlyHints" => st::EarlyHints.into_response(), "Accepted" => st::Accepted.into_response(), "NoContent" => st::NoContent.into_response(),
                                           "ResetContent" => st::ResetContent.into_response(), "NotModified" => st::NotModified.into_response(), o => panic!("harness: bare status {o}") },
                    "redirect" => match g(2) { "MovedPermanently" => st::MovedPermanently::to(string(body)).into_response(), "Found" => st::Found::at(string(body)).into_response(),
                                               "SeeOther" => st::SeeOther::at(string(body)).into_response(), "TemporaryRedirect" => st::TemporaryRedirect::to(string(body)).into_response(),
                                               "PermanentRedirect" => st::PermanentRedirect::to(string(body)).into_response(), o => panic!("harness: redirect {o}") },
                    o => panic!("harness: typed kind {o}"),
                };
            }
            other => panic!("harness: unknown op {other}"),
        }
    }
    res
}

thread_local! { static CURRENT: std::cell::RefCell<Value> = std::cell::RefCell::new(Value::Null); }
async fn built() -> Response { CURRENT.with(|c| build(&c.borrow())) }

pub fn run_case(c: &Value) -> Value {
    pin_clock(c["clock"].as_u64().unwrap_or(PINNED_CLOCK));
    let mut res = build(c);
    res.__verif_complete();
    let declared = res.__verif_declared_size();
    let mut wire = Vec::new();
    rt().block_on(async { res.__verif_send(&mut wire).await; });
    // the same response returned by a handler, through the real Router::handle (GET and HEAD) and the serializer
    thread_local! { static APP: ohkami::testing::TestingOhkami = { use ohkami::testing::Testing; Ohkami::new(("/".GET(built),)).test() }; }
    CURRENT.with(|cur| *cur.borrow_mut() = c.clone());
    let served = |m: &str| APP.with(|t| crate::apps::wire(t, m, b"/", &[], b"")).map(|w| hex(&w)).unwrap_or_default();
    let (get, head) = (served("GET"), served("HEAD"));
    json!({"wire": hex(&wire), "declared": declared, "get": get, "head": head})
}
