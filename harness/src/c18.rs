//! C18 executor, through hook H4: the REAL `until_interrupt` future polled by hand with a flag waker, the REAL interrupt
//! handler body run at a chosen scheduling point of the poll, on the real atomics; and the REAL WaitGroup.
use ohkami::__verif::{__VerifCtrlC as CtrlC, __VerifWaitGroup as WaitGroup, __VERIF_SCHED};
use serde_json::{json, Value};
use std::future::Future;
use std::sync::atomic::{AtomicBool, AtomicU8, Ordering};
use std::sync::Arc;
use std::task::{Context, Poll, Wake};

struct Flag(AtomicBool);
impl Wake for Flag { fn wake(self: Arc<Self>) { self.0.store(true, Ordering::SeqCst) } }
static AT: AtomicU8 = AtomicU8::new(255);
fn sched(n: u8) { if AT.load(Ordering::SeqCst) == n { AT.store(255, Ordering::SeqCst); CtrlC::__verif_on_interrupt() } }

fn polls(ps: &[Value], wakers: &[u64]) -> Value {
    *__VERIF_SCHED.lock().unwrap() = Some(sched);
    CtrlC::__verif_reset();
    // two tasks' wakers: the accept loop may be polled with a different waker on a later poll (the future moved to another task)
    let flags = [Arc::new(Flag(AtomicBool::new(false))), Arc::new(Flag(AtomicBool::new(false)))];
    let ws: [std::task::Waker; 2] = [flags[0].clone().into(), flags[1].clone().into()];
    let c = CtrlC;   // the unit struct; `new()` would also install the process-wide signal handler
    let mut fut = Box::pin(c.until_interrupt(std::future::pending::<()>()));
    let mut out = vec![];
    for (i, p) in ps.iter().enumerate() {
        let at = p.as_u64().map(|x| x as u8);
        let w = wakers.get(i).copied().unwrap_or(0) as usize & 1;
        let flag = &flags[w];
        let mut cx = Context::from_waker(&ws[w]);
        flag.0.store(false, Ordering::SeqCst);           // the task is being polled: its wake has been consumed
        AT.store(255, Ordering::SeqCst);
        if at == Some(0) { CtrlC::__verif_on_interrupt() }
        if let Some(k @ 1..=2) = at { AT.store(k, Ordering::SeqCst) }
        let r = fut.as_mut().poll(&mut cx);
        let none = matches!(r, Poll::Ready(None));
        if !none && at == Some(3) { CtrlC::__verif_on_interrupt() }
        out.push(json!({"ready_none": none, "woken": flag.0.load(Ordering::SeqCst)}));
        if none { break }
    }
    CtrlC::__verif_reset();
    json!({"polls": out})
}

fn wg(ops: &[Value]) -> Value {
    let root = WaitGroup::new();
    let mut tokens: Vec<WaitGroup> = vec![];
    let flag = Arc::new(Flag(AtomicBool::new(false)));
    let waker = flag.clone().into();
    let mut cx = Context::from_waker(&waker);
    let mut out = vec![];
    // `howl` awaits the root by value; polling it by reference through Pin is the same `poll`
    let mut root = Box::pin(root);
    for o in ops {
        match o.as_str().unwrap() {
            "add" => tokens.push(root.add()),
            "done" => { let t = tokens.remove(0); t.done() }
            "drop" => { let t = tokens.remove(0); drop(t) }          // a session task that ends by unwinding: its handle is dropped, `done` is never called
            "poll" => out.push(matches!(root.as_mut().poll(&mut cx), Poll::Ready(()))),
            x => panic!("harness: wg op {x}"),
        }
    }
    std::mem::forget(root);     // dropping the root would decrement the counter below zero; `howl` returns right after
    json!({"polls": out})
}

pub fn run_case(c: &Value) -> Value {
    if let Some(w) = c.get("wg").and_then(Value::as_array) { return wg(w) }
    let wakers: Vec<u64> = c.get("wakers").and_then(Value::as_array).map(|a| a.iter().map(|x| x.as_u64().unwrap_or(0)).collect()).unwrap_or_default();
    polls(c["polls"].as_array().unwrap(), &wakers)
}
