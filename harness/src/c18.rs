//! C18 executor, through hook H4: the REAL `until_interrupt` future polled by hand with a flag waker, the REAL interrupt
//! handler body run at a chosen scheduling point of the poll, on the real atomics; and the REAL WaitGroup.
use ohkami::__verif::{__VerifCtrlC as CtrlC, __VerifWaitGroup as WaitGroup, __VERIF_SCHED};
use serde_json::{json, Value};
use std::future::Future;
use std::sync::atomic::{AtomicBool, AtomicU8, Ordering};
use std::sync::Arc;
use std::task::{Context, Poll, Wake};

struct Flag(AtomicBool);
impl Wake for Flag { fn wake(self: Arc<Self>) { self.0.store(true, Ordering::SeqCst) } }
static AT: AtomicU8 = AtomicU8::new(255);
fn sched(n: u8) { if AT.load(Ordering::SeqCst) == n { AT.store(255, Ordering::SeqCst); CtrlC::__verif_on_interrupt() } }

fn polls(ps: &[Value], wakers: &[u64], conn: &[bool]) -> Value {
    *__VERIF_SCHED.lock().unwrap() = Some(sched);
    CtrlC::__verif_reset();
    // two tasks' wakers: the accept loop may be polled with a different waker on a later poll (the future moved to another task)
    let flags = [Arc::new(Flag(AtomicBool::new(false))), Arc::new(Flag(AtomicBool::new(false)))];
    let ws: [std::task::Waker; 2] = [flags[0].clone().into(), flags[1].clone().into()];
    let c = CtrlC;   // the unit struct; `new()` would also install the process-wide signal handler
    let mut fut = Box::pin(c.until_interrupt(std::future::pending::<()>()));
    let mut out = vec![];
    for (i, p) in ps.iter().enumerate() {
        let at = p.as_u64().map(|x| x as u8);
        let w = wakers.get(i).copied().unwrap_or(0) as usize & 1;
        let flag = &flags[w];
        let mut cx = Context::from_waker(&ws[w]);
        flag.0.store(false, Ordering::SeqCst);           // the task is being polled: its wake has been consumed
        AT.store(255, Ordering::SeqCst);
        if at == Some(0) { CtrlC::__verif_on_interrupt() }
        if let Some(k @ 1..=2) = at { AT.store(k, Ordering::SeqCst) }
        // `conn`: a connection is waiting to be accepted when this poll begins — the accept loop's poll of this iteration finds `accept()` ready
        // (each iteration of the loop polls a fresh `until_interrupt(listener.accept())`)
        if conn.get(i).copied().unwrap_or(false) {
            let mut f2 = Box::pin(c.until_interrupt(std::future::ready(())));
            let r = f2.as_mut().poll(&mut cx);
            let none = matches!(r, Poll::Ready(None));
            if !none && at == Some(3) { CtrlC::__verif_on_interrupt() }
            out.push(json!({"ready_none": none, "accepted": matches!(r, Poll::Ready(Some(()))), "woken": flag.0.load(Ordering::SeqCst)}));
            if none { break }
            continue
        }
        let r = fut.as_mut().poll(&mut cx);
        let none = matches!(r, Poll::Ready(None));
        if !none && at == Some(3) { CtrlC::__verif_on_interrupt() }
        out.push(json!({"ready_none": none, "woken": flag.0.load(Ordering::SeqCst)}));
        if none { break }
    }
    CtrlC::__verif_reset();
    json!({"polls": out})
}

// --- the wait group polled with a waker that counts how it is touched: at the n-th touch (clone / wake / wake_by_ref / drop) during a
// poll, the oldest live session ends — the interleavings of "the last session ends" with the steps of `WaitGroup::poll`
struct Touch { woken: AtomicBool, touches: std::sync::atomic::AtomicUsize }
static FIRE_AT: std::sync::atomic::AtomicUsize = std::sync::atomic::AtomicUsize::new(0);
static FIRED: AtomicBool = AtomicBool::new(false);
thread_local! { static TOKENS: std::cell::RefCell<Vec<WaitGroup>> = std::cell::RefCell::new(vec![]); }
fn touch(t: &Touch) {
    let n = t.touches.fetch_add(1, Ordering::SeqCst) + 1;
    if n == FIRE_AT.load(Ordering::SeqCst) && !FIRED.swap(true, Ordering::SeqCst) {
        let tok = TOKENS.with(|v| { let mut v = v.borrow_mut(); if v.is_empty() { None } else { Some(v.remove(0)) } });
        if let Some(tok) = tok { tok.done() }
    }
}
mod tw {
    use super::{touch, Touch};
    use std::sync::{atomic::Ordering, Arc};
    use std::task::{RawWaker, RawWakerVTable};
    unsafe fn clone(p: *const ()) -> RawWaker { let a = Arc::from_raw(p as *const Touch); let b = a.clone(); std::mem::forget(a); touch(&b); RawWaker::new(Arc::into_raw(b) as *const (), &VT) }
    unsafe fn wake(p: *const ()) { let a = Arc::from_raw(p as *const Touch); a.woken.store(true, Ordering::SeqCst); touch(&a) }
    unsafe fn wake_by_ref(p: *const ()) { let a = Arc::from_raw(p as *const Touch); a.woken.store(true, Ordering::SeqCst); touch(&a); std::mem::forget(a) }
    unsafe fn drop(p: *const ()) { let a = Arc::from_raw(p as *const Touch); touch(&a) }
    pub static VT: RawWakerVTable = RawWakerVTable::new(clone, wake, wake_by_ref, drop);
    pub fn waker(t: Arc<Touch>) -> std::task::Waker { unsafe { std::task::Waker::from_raw(RawWaker::new(Arc::into_raw(t) as *const (), &VT)) } }
}

fn wg(ops: &[Value]) -> Value {
    let root = WaitGroup::new();
    TOKENS.with(|v| { for t in v.borrow_mut().drain(..) { std::mem::forget(t) } });
    let t = Arc::new(Touch { woken: AtomicBool::new(false), touches: std::sync::atomic::AtomicUsize::new(0) });
    let waker = tw::waker(t.clone());
    let mut cx = Context::from_waker(&waker);
    let mut out = vec![];
    // `howl` awaits the root by value; polling it by reference through Pin is the same `poll`
    let mut root = Box::pin(root);
    for o in ops {
        let o = o.as_str().unwrap();
        match o {
            "add" => { let tok = root.add(); TOKENS.with(|v| v.borrow_mut().push(tok)) }
            "done" => { let tok = TOKENS.with(|v| v.borrow_mut().remove(0)); tok.done() }
            "drop" => { let tok = TOKENS.with(|v| v.borrow_mut().remove(0)); drop(tok) }          // a session task that ends by unwinding: its handle is dropped, `done` is never called
            _ if o.starts_with("poll") => {
                let at: usize = o.strip_prefix("poll@").and_then(|n| n.parse().ok()).unwrap_or(0);
                t.woken.store(false, Ordering::SeqCst);           // the task is being polled: its wake has been consumed
                t.touches.store(0, Ordering::SeqCst);
                FIRED.store(false, Ordering::SeqCst);
                FIRE_AT.store(at, Ordering::SeqCst);
                let ready = matches!(root.as_mut().poll(&mut cx), Poll::Ready(()));
                FIRE_AT.store(0, Ordering::SeqCst);
                out.push(json!({"ready": ready, "woken": t.woken.load(Ordering::SeqCst), "fired": FIRED.load(Ordering::SeqCst)}));
            }
            x => panic!("harness: wg op {x}"),
        }
    }
    let final_woken = t.woken.load(Ordering::SeqCst);
    TOKENS.with(|v| { for t in v.borrow_mut().drain(..) { std::mem::forget(t) } });
    std::mem::forget(root);     // dropping the root would decrement the counter below zero; `howl` returns right after
    json!({"polls": out, "final_woken": final_woken})
}

/// the REAL `howl` in a child process (the Ctrl-C handler can be installed once per process): k keep-alive sessions (one of them may have
/// made a handler panic), then a real SIGINT to the child, then the sessions are closed in the given order.
/// child side: `verif_harness C18howl '<scenario json>'`
pub fn howl_child(scenario: &str) -> ! {
    use std::io::{Read, Write};
    use std::sync::atomic::AtomicBool;
    use std::time::Duration;
    use ohkami::prelude::*;
    let sc: Value = serde_json::from_str(scenario).expect("harness: scenario");
    let k = sc["sessions"].as_u64().unwrap_or(0) as usize;
    let order: Vec<usize> = sc["order"].as_array().map(|a| a.iter().map(|x| x.as_u64().unwrap() as usize).collect()).unwrap_or_else(|| (0..k).collect());
    let boom = sc["panic"].as_u64().map(|x| x as usize);
    let by_signal = sc["signal"].as_bool().unwrap_or(true);
    async fn ok() -> &'static str { "ok" }
    async fn boomh() -> &'static str { panic!("boom") }
    static RETURNED: AtomicBool = AtomicBool::new(false);
    let port = { let l = std::net::TcpListener::bind("127.0.0.1:0").unwrap(); l.local_addr().unwrap().port() };
    let client = std::thread::spawn(move || {
        let connect = || { for _ in 0..200 { if let Ok(s) = std::net::TcpStream::connect(("127.0.0.1", port)) { return Some(s) } std::thread::sleep(Duration::from_millis(10)); } None };
        let ask = |s: &mut std::net::TcpStream, path: &str| -> bool {
            s.set_read_timeout(Some(Duration::from_millis(300))).ok();
            if s.write_all(format!("GET {path} HTTP/1.1\r\n\r\n").as_bytes()).is_err() { return false }
            let mut buf = [0u8; 512];
            matches!(s.read(&mut buf), Ok(n) if n > 0)
        };
        let mut sessions: Vec<Option<std::net::TcpStream>> = vec![];
        let mut served = vec![];
        for i in 0..k {
            let Some(mut s) = connect() else { break };
            served.push(ask(&mut s, if boom == Some(i) { "/boom" } else { "/" }));
            sessions.push(Some(s));
        }
        if k == 0 { let _ = connect().map(drop); std::thread::sleep(Duration::from_millis(50)); }       // make sure the accept loop is running
        // the interrupt
        if by_signal { std::process::Command::new("kill").arg("-INT").arg(std::process::id().to_string()).status().ok(); }
        else { CtrlC::__verif_on_interrupt(); }
        std::thread::sleep(Duration::from_millis(150));
        // a session whose handler panicked is over (its task unwound, the server side of the connection is gone): it is not in flight
        let mut live: Vec<usize> = (0..sessions.len()).filter(|i| boom != Some(*i)).collect();
        let returned_with_sessions_open = !live.is_empty() && RETURNED.load(Ordering::SeqCst);
        // a new connection after the interrupt must not be served, and (while sessions are still open) must not even be accepted: the listening
        // socket is closed.  The accept loop is given up to 2 s to notice the interrupt before a successful connect counts.
        let mut served_after_interrupt = false;
        let mut accepting_after_interrupt = true;
        for _ in 0..7 {
            match std::net::TcpStream::connect(("127.0.0.1", port)) {
                Ok(mut s) => { if ask(&mut s, "/") { served_after_interrupt = true } }
                Err(_) => { accepting_after_interrupt = false; break }
            }
            std::thread::sleep(Duration::from_millis(50));
        }
        let mut returned_early = returned_with_sessions_open;
        for (n, i) in order.iter().enumerate() {
            if let Some(s) = sessions.get_mut(*i).and_then(Option::take) { drop(s) }
            live.retain(|x| x != i);
            std::thread::sleep(Duration::from_millis(60));
            let _ = n;
            if !live.is_empty() && RETURNED.load(Ordering::SeqCst) { returned_early = true }
        }
        let mut waited = 0;
        while !RETURNED.load(Ordering::SeqCst) && waited < 3000 { std::thread::sleep(Duration::from_millis(20)); waited += 20 }
        println!("{}", json!({"served": served, "returned_early": returned_early, "served_after_interrupt": served_after_interrupt, "accepting_after_interrupt": accepting_after_interrupt, "returned_after_all": RETURNED.load(Ordering::SeqCst)}));
        std::process::exit(0);
    });
    let rt = tokio::runtime::Builder::new_current_thread().enable_all().build().unwrap();
    let local = tokio::task::LocalSet::new();
    local.block_on(&rt, async move {
        Ohkami::new(("/".GET(ok), "/boom".GET(boomh))).howl(("127.0.0.1", port)).await;
        RETURNED.store(true, Ordering::SeqCst);
        tokio::time::sleep(Duration::from_secs(10)).await;
    });
    let _ = client.join();
    std::process::exit(0)
}

fn howl(sc: &Value) -> Value {
    // the child picks a free port by binding and releasing it: somebody else may grab it in between; try again when the child gave no answer
    for _ in 0..3 { let r = howl_once(sc); if r.get("error").is_none() { return r } }
    howl_once(sc)
}

fn howl_once(sc: &Value) -> Value {
    use std::io::Read;
    // `ignored`: the process is started with SIGINT ignored (a background job of a non-interactive shell, nohup-like launchers)
    let exe = std::env::current_exe().unwrap();
    let mut cmd = if sc["ignored"].as_bool() == Some(true) {
        let mut c = std::process::Command::new("sh");
        c.arg("-c").arg("trap '' INT; exec \"$0\" C18howl \"$1\"").arg(&exe).arg(sc.to_string()); c
    } else { let mut c = std::process::Command::new(&exe); c.arg("C18howl").arg(sc.to_string()); c };
    let mut child = match cmd
        .stdout(std::process::Stdio::piped()).stderr(std::process::Stdio::null()).spawn() { Ok(c) => c, Err(e) => return json!({"error": e.to_string()}) };
    let t0 = std::time::Instant::now();
    loop {
        match child.try_wait() {
            Ok(Some(_)) => break,
            Ok(None) if t0.elapsed().as_secs() > 12 => { let _ = child.kill(); let _ = child.wait(); return json!({"hang": true}) }
            Ok(None) => std::thread::sleep(std::time::Duration::from_millis(20)),
            Err(e) => return json!({"error": e.to_string()}),
        }
    }
    let mut out = String::new();
    child.stdout.take().unwrap().read_to_string(&mut out).ok();
    serde_json::from_str(out.lines().last().unwrap_or("")).unwrap_or(json!({"error": "no answer from the howl child", "stdout": out}))
}

pub fn run_case(c: &Value) -> Value {
    if let Some(sc) = c.get("howl") { return howl(sc) }
    if let Some(w) = c.get("wg").and_then(Value::as_array) { return wg(w) }
    let wakers: Vec<u64> = c.get("wakers").and_then(Value::as_array).map(|a| a.iter().map(|x| x.as_u64().unwrap_or(0)).collect()).unwrap_or_default();
    let conn: Vec<bool> = c.get("conn").and_then(Value::as_array).map(|a| a.iter().map(|x| x.as_bool().unwrap_or(false)).collect()).unwrap_or_default();
    polls(c["polls"].as_array().unwrap(), &wakers, &conn)
}
