//! C01 / C04 executor: an application tree from the case, then each request through the real router
use crate::apps;
use crate::util::*;
use ohkami::testing::*;
use serde_json::{json, Value};

pub fn run_case(c: &Value) -> Value {
    let built = std::panic::catch_unwind(std::panic::AssertUnwindSafe(|| apps::build(&c["app"]).test()));
    let t = match built { Ok(t) => t, Err(e) => return json!({"build": "refused", "why": panic_msg(e)}) };
    *apps::STOP.lock().unwrap() = c.get("stop").and_then(Value::as_i64);
    let mut out = vec![];
    for r in c["reqs"].as_array().unwrap() {
        let path = string(unhex(r["p"].as_str().unwrap()));
        let m = r["m"].as_str().unwrap();
        let res = std::panic::catch_unwind(std::panic::AssertUnwindSafe(|| apps::request(&t, m, &path)));
        out.push(match res {
            Ok((status, body, log)) => {
                let h = log.iter().find(|l| l.starts_with('h')).cloned();
                json!({"status": status, "body": body.is_some(), "handler": h.as_ref().map(|l| l[1..].split(':').next().unwrap().parse::<i64>().unwrap()),
                       "params": h.as_ref().map(|l| l.split(':').nth(1).unwrap().split(',').filter(|x| !x.is_empty()).collect::<Vec<_>>()),
                       "trace": log.iter().map(|l| if l.starts_with('h') { l.split(':').next().unwrap().to_string() } else { l.clone() }).collect::<Vec<_>>()})
            }
            Err(e) => json!({"panic": panic_msg(e)}),
        });
    }
    let mut res = json!({"reqs": out});
    // the same requests on a permuted registration order of the same application (C01: order independence)
    if let Some(app2) = c.get("app2").filter(|a| !a.is_null()) {
        if let Ok(t2) = std::panic::catch_unwind(std::panic::AssertUnwindSafe(|| apps::build(app2).test())) {
            let mut out2 = vec![];
            for r in c["reqs"].as_array().unwrap() {
                let path = string(unhex(r["p"].as_str().unwrap()));
                let m = r["m"].as_str().unwrap();
                out2.push(match std::panic::catch_unwind(std::panic::AssertUnwindSafe(|| apps::request(&t2, m, &path))) {
                    Ok((status, _, log)) => {
                        let h = log.iter().find(|l| l.starts_with('h')).cloned();
                        json!({"status": status, "handler": h.as_ref().map(|l| l[1..].split(':').next().unwrap().parse::<i64>().unwrap()),
                               "params": h.as_ref().map(|l| l.split(':').nth(1).unwrap().split(',').filter(|x| !x.is_empty()).collect::<Vec<_>>())})
                    }
                    Err(e) => json!({"panic": panic_msg(e)}),
                });
            }
            res["reqs2"] = json!(out2);
        } else { res["reqs2"] = json!("refused"); }
    }
    res
}
