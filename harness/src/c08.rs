//! C08 executor: arbitrary bytes into every network-facing decoder, over a family of target types covering the serde entry points.
//! Reports ok / err (panics are caught by main, aborts by the orchestrator), re-validates every yielded string as UTF-8 and checks that
//! borrowed slices point inside the input.
use crate::util::*;
use serde::Deserialize;
use serde_json::{json, Value as J};
use std::borrow::Cow;
use std::collections::{BTreeMap, HashMap};

fn inside(input: &[u8], s: &[u8]) -> bool {
    if s.is_empty() { return true }
    let (a, b) = (input.as_ptr() as usize, s.as_ptr() as usize);
    b >= a && b + s.len() <= a + input.len()
}

#[derive(Deserialize)] struct U0 { f: f32, g: f64 }
#[derive(Deserialize)] struct U1<'a> { #[serde(borrow)] b: &'a [u8], c: char }
#[derive(Deserialize)] struct U2<'a> { #[serde(borrow)] s: Cow<'a, str>, t: (u8, String) }
#[derive(Deserialize)] struct U3 { k: u32, u: () }
#[derive(Deserialize)] struct Unit;
#[derive(Deserialize)] struct U4 { x: i128, y: u128, z: Unit }
#[derive(Deserialize)] struct U5 { e: En, o: Option<En> }
#[derive(Deserialize)] enum En { A, B(u8), C { x: u8 } }
#[derive(Deserialize)] struct U6<'a> { #[serde(borrow)] a: &'a str, #[serde(borrow)] b: Option<&'a str>, v: Vec<i64>, w: Vec<bool> }
#[derive(Deserialize)] struct NT(String);
#[derive(Deserialize)] struct U7 { n: NT, o: Option<Option<u8>>, ignored: serde::de::IgnoredAny }

fn url_ext(tid: u64, input: &[u8]) -> J {
    macro_rules! run { ($t:ty, |$v:ident| $chk:expr) => { match ohkami_lib::serde_urlencoded::from_bytes::<$t>(input) { Ok($v) => { let (utf8_ok, ins): (bool, bool) = $chk; json!({"outcome": "ok", "utf8_ok": utf8_ok, "inside": ins}) } Err(_) => json!({"outcome": "err"}) } } }
    let u = |s: &str| std::str::from_utf8(s.as_bytes()).is_ok();
    match tid {
        20 => run!(U0, |_v| (true, true)),
        21 => run!(U1, |v| (true, inside(input, v.b))),
        22 => run!(U2, |v| (u(&v.s) && u(&v.t.1), match &v.s { Cow::Borrowed(b) => inside(input, b.as_bytes()), _ => true })),
        23 => run!(U3, |_v| (true, true)),
        24 => run!(U4, |_v| (true, true)),
        25 => run!(U5, |_v| (true, true)),
        26 => run!(U6, |v| (u(v.a) && v.b.map_or(true, |b| u(b)), inside(input, v.a.as_bytes()) && v.b.map_or(true, |b| inside(input, b.as_bytes())))),
        27 => run!(U7, |v| (u(&v.n.0), true)),
        28 => run!(BTreeMap<String, String>, |v| (v.iter().all(|(k, x)| u(k) && u(x)), true)),
        29 => run!(Vec<(String, String)>, |v| (v.iter().all(|(k, x)| u(k) && u(x)), true)),
        30 => run!(String, |v| (u(&v), true)),
        31 => run!(HashMap<String, u32>, |v| (v.keys().all(|k| u(k)), true)),
        _ => json!({"outcome": "bad-tid"}),
    }
}

/// the path / param decoders: the bytes as the request target of a route with two params
fn percent_path(input: &[u8]) -> J {
    let mut raw = b"GET ".to_vec(); raw.extend_from_slice(input); raw.extend_from_slice(b" HTTP/1.1\r\n\r\n");
    let mut conn = Script::new(vec![raw], true);
    let stalled = conn.stalled.clone();
    let mut req = ohkami::Request::__verif_init();
    let mut req = unsafe { std::pin::Pin::new_unchecked(&mut req) };
    match block_on_or_stall(&stalled, req.as_mut().__verif_read(&mut conn)) {
        Some(Ok(Some(()))) => {
            let p = req.path.str().into_owned();
            let q: Vec<(String, String)> = req.query.iter().map(|(k, v)| (k.into_owned(), v.into_owned())).collect();
            let a = ohkami::util::percent_decode_utf8(input).map(|c| c.into_owned());
            let b = ohkami::util::percent_decode(input).into_owned();
            json!({"outcome": "ok", "utf8_ok": std::str::from_utf8(p.as_bytes()).is_ok() && q.iter().all(|(k, v)| std::str::from_utf8(k.as_bytes()).is_ok() && std::str::from_utf8(v.as_bytes()).is_ok())
                   && a.as_ref().map_or(true, |s| std::str::from_utf8(s.as_bytes()).is_ok()), "inside": b.len() <= input.len()})
        }
        _ => json!({"outcome": "err"}),
    }
}

pub fn run_case(c: &J) -> J {
    let kind = c["kind"].as_str().unwrap();
    let input = unhex(c["input"].as_str().unwrap());
    match kind {
        "url" => { let tid = c["tid"].as_u64().unwrap(); if tid >= 20 { url_ext(tid, &input) } else { crate::c09::run_case(c) } }
        "cookie" => crate::c11::run_case(&json!({"kind": "struct", "tid": c["tid"], "input": c["input"]})),
        "iter" => crate::c11::run_case(&json!({"kind": "iter", "input": hex(String::from_utf8_lossy(&input).as_bytes())})),
        "multipart" => crate::c10::run_case(c),
        "setcookie" => {
            // arbitrary text reaches `SetCookie::from_raw` through the directive strings of the builder
            let txt = String::from_utf8_lossy(&input).into_owned();
            let mut res = ohkami::Response::OK();
            let t2 = txt.clone();
            res.headers.set().SetCookie("n", "v", move |b| b.Path(t2));
            let n = res.headers.SetCookie().count();
            let mut res2 = ohkami::Response::OK();
            res2.headers.set().SetCookie(leak_str(b"k".to_vec()), txt, |b| b);
            let ok = res2.headers.SetCookie().all(|sc| std::str::from_utf8(sc.Cookie().1.as_bytes()).is_ok());
            json!({"outcome": if n <= 1 { "ok" } else { "err" }, "utf8_ok": ok, "inside": true})
        }
        "percent" => percent_path(&input),
        k => panic!("harness: kind {k}"),
    }
}
