//! C05 / C06 executor: a fixed echo application driven through a mirror of the session loop (`clear`, `read`, `handle`, `send` via hooks H2)
//! over a scripted in-memory connection.  The echo body lists everything a handler can observe of the request, including a
//! per-request context entry set by a fang (so residue of an earlier request would show).
use crate::util::*;
use ohkami::prelude::*;
use ohkami::testing::*;
use serde_json::{json, Value};
use std::pin::Pin;

#[derive(Clone)] struct Ctx(String);
#[derive(Clone)] struct CtxFang;
impl FangAction for CtxFang {
    async fn fore<'a>(&'a self, req: &'a mut Request) -> Result<(), Response> {
        if let Some(v) = req.headers.get("X-Ctx").map(|s| s.to_string()) { req.context.set(Ctx(v)) }
        // ... and, like a "real client address" middleware, overwrites the public field `ip` from a header of THIS request (`X-Set-Ip`)
        if let Some(ip) = req.headers.get("X-Set-Ip").and_then(|s| s.parse::<std::net::IpAddr>().ok()) { req.ip = ip }
        Ok(())
    }
}

/// a fang that scrubs the hop-by-hop `Connection` header off the request once the inner handler has answered (when the request carries `X-Scrub`):
/// whether the session closes must follow what the client sent, not what fangs left in the request
#[derive(Clone)] struct Scrub;
struct ScrubProc<I: ohkami::FangProc>(I);
impl<I: ohkami::FangProc> ohkami::FangProc for ScrubProc<I> {
    async fn bite<'b>(&'b self, req: &'b mut Request) -> Response {
        let mut res = self.0.bite(req).await;
        if req.headers.get("X-Scrub").is_some() { req.headers.set().Connection(None); }
        // ... and that writes a `Connection` field on the RESPONSE when the request asks for one (`X-Res-Conn`): what the application says there
        // does not change when the session ends
        if let Some(v) = req.headers.get("X-Res-Conn").map(|s| s.to_string()) { res.headers.set().Connection(v); }
        res
    }
}
impl<I: ohkami::FangProc> ohkami::Fang<I> for Scrub { type Proc = ScrubProc<I>; fn chain(&self, inner: I) -> Self::Proc { ScrubProc(inner) } }

macro_rules! std_echo {
    ($($h:ident),*) => {
        fn std_echo(req: &Request) -> String {
            let mut v: Vec<String> = vec![];
            $( if let Some(x) = req.headers.$h() { v.push(format!("{}={}", stringify!($h), hex(x.as_bytes()))) } )*
            v.join(",")
        }
    };
}
for_each_req_header!(std_echo);
const CUSTOM: [&str; 4] = ["X-A", "X-B", "X-Ctx", "x-lower"];

fn echo(req: &Request) -> std::pin::Pin<Box<dyn std::future::Future<Output = String> + Send>> {
    let q: Vec<String> = req.query.iter().map(|(k, v)| format!("{}={}", hex(k.as_bytes()), hex(v.as_bytes()))).collect();
    let x: Vec<String> = CUSTOM.iter().filter_map(|n| req.headers.get(n).map(|v| format!("{}={}", hex(n.as_bytes()), hex(v.as_bytes())))).collect();
    let a: Vec<String> = req.path.params().map(|p| hex(p.as_bytes())).collect();
    // the peer the request came from: the connection's own address (the scripted connection and the loopback socket both read "peer"),
    // whatever an earlier request on the connection carried
    let ip = if req.ip.is_unspecified() || req.ip.is_loopback() { "peer".to_string() } else { req.ip.to_string() };
    let s = format!("M={};P={};Q={};H={};X={};B={};A={};C={};I={}", req.method, hex(req.path.str().as_bytes()), q.join(","), std_echo(req), x.join(","),
        req.payload().map(hex).unwrap_or_else(|| "-".into()), a.join(","), req.context.get::<Ctx>().map(|c| hex(c.0.as_bytes())).unwrap_or_else(|| "-".into()), ip);
    Box::pin(async move { s })
}

fn ohkami() -> Ohkami {
    Ohkami::new((CtxFang, Scrub,
        "/".GET(echo).POST(echo).PUT(echo).PATCH(echo).DELETE(echo),
        "/:a".GET(echo).POST(echo).PUT(echo).PATCH(echo).DELETE(echo),
        "/:a/:b".GET(echo).POST(echo).PUT(echo).PATCH(echo).DELETE(echo),
    ))
}
fn app() -> TestingOhkami { ohkami().test() }

/// the REAL session loop (`Session::manage`, hook H6) on a loopback TCP connection: each script element is written, then everything the server
/// answers within a quiet window is collected; returns all bytes the server wrote, and whether it closed
fn real_session(script: Vec<Vec<u8>>, eof: bool) -> Value {
    use tokio::io::{AsyncReadExt, AsyncWriteExt};
    use std::time::Duration;
    let rt = rt();
    let local = tokio::task::LocalSet::new();
    local.block_on(&rt, async move {
        let listener = tokio::net::TcpListener::bind("127.0.0.1:0").await.expect("harness: bind");
        let addr = listener.local_addr().unwrap();
        let mut client = tokio::net::TcpStream::connect(addr).await.expect("harness: connect");
        client.set_nodelay(true).ok();
        let (server, _) = listener.accept().await.expect("harness: accept");
        server.set_nodelay(true).ok();
        let task = tokio::task::spawn_local(ohkami().__verif_session(server));
        let mut all: Vec<u8> = Vec::new();
        let mut buf = vec![0u8; 65536];
        let mut closed = false;
        'outer: for chunk in script {
            if client.write_all(&chunk).await.is_err() { closed = true; break }
            let _ = client.flush().await;
            // wait generously for the first byte of the answer (a loaded machine must not make two requests meet in one read), then until quiet
            let mut window = 60;
            loop {
                match tokio::time::timeout(Duration::from_millis(window), client.read(&mut buf)).await {
                    Ok(Ok(0)) | Ok(Err(_)) => { closed = true; break 'outer }
                    Ok(Ok(n)) => { all.extend_from_slice(&buf[..n]); window = 3 }
                    Err(_) => break,
                }
            }
        }
        if eof && !closed {
            let _ = client.shutdown().await;
            loop {
                match tokio::time::timeout(Duration::from_millis(200), client.read(&mut buf)).await {
                    Ok(Ok(0)) | Ok(Err(_)) | Err(_) => break,
                    Ok(Ok(n)) => all.extend_from_slice(&buf[..n]),
                }
            }
        }
        task.abort();
        json!({"all": hex(&all), "closed_by_server": closed})
    })
}

fn session(t: &TestingOhkami, script: Vec<Vec<u8>>, eof: bool) -> Value {
    let mut conn = Script::new(script, eof);
    let stalled = conn.stalled.clone();
    let mut out: Vec<String> = vec![];
    let mut req = Request::__verif_init();
    let mut req = unsafe { Pin::new_unchecked(&mut req) };
    let peer = req.ip;
    let end = block_on_or_stall(&stalled, async {
        loop {
            req.as_mut().get_mut().__verif_clear();
            req.ip = peer;          // (the mirror follows session/mod.rs: the connection's address is written back before each request)
            match req.as_mut().__verif_read(&mut conn).await {
                Ok(Some(())) => {
                    let close = req.headers.Connection().is_some_and(|options| options.split(',').any(|option| option.trim().eq_ignore_ascii_case("close")));          // (the mirror follows session/mod.rs)
                    let res = t.__verif_handle(req.as_mut().get_mut()).await;
                    let mut w = Vec::new();
                    res.__verif_send(&mut w).await;
                    out.push(hex(&w));
                    if close { break "closed_by_server" }
                }
                Ok(None) => break "none",
                Err(res) => { let mut w = Vec::new(); res.__verif_send(&mut w).await; out.push(hex(&w)); break "closed_by_server" }          // a refused request is answered and ends the session
            }
        }
    });
    json!({"responses": out, "end": end.unwrap_or("stalled")})
}

fn guarded(t: &TestingOhkami, script: Vec<Vec<u8>>, eof: bool) -> Value {
    match std::panic::catch_unwind(std::panic::AssertUnwindSafe(|| session(t, script, eof))) { Ok(v) => v, Err(e) => json!({"panic": panic_msg(e)}) }
}

/// Scenarios in REAL time, through the real `Session::manage` over loopback TCP (hook H6), in a child process started with
/// `OHKAMI_KEEPALIVE_TIMEOUT=2` (the configuration is read once per process; every margin against the timeout is a full second, so a loaded machine does not matter): what no scripted connection can show — the timers of the session loop.
///   keepalive : four requests 0.9 s apart (each well inside the Keep-Alive timeout, the session older than it at the fourth)
///   slow      : one request whose handler takes 3 s
///   stream    : an event stream with 1.5 s between its three messages (C17: "at any pace")
///   idle      : one request, then silence: the server ends the session after the timeout
pub fn timed() -> Value {
    use std::io::Read;
    let exe = std::env::current_exe().unwrap();
    let mut child = match std::process::Command::new(exe).arg("C05timed").env("OHKAMI_KEEPALIVE_TIMEOUT", "2")
        .stdin(std::process::Stdio::null()).stdout(std::process::Stdio::piped()).stderr(std::process::Stdio::null()).spawn() {
        Ok(c) => c, Err(e) => return json!({"panic": format!("harness: cannot start the timed child: {e}")}) };
    let mut out = String::new();
    let _ = child.stdout.take().unwrap().read_to_string(&mut out);
    let _ = child.wait();
    serde_json::from_str(out.trim()).unwrap_or_else(|_| json!({"panic": format!("the timed child died: {}", &out[..out.len().min(200)])}))
}

pub fn timed_child() -> ! {
    use tokio::io::{AsyncReadExt, AsyncWriteExt};
    use std::time::Duration;
    use ohkami::sse::DataStream;
    async fn root() -> &'static str { "root" }
    async fn slow() -> &'static str { tokio::time::sleep(Duration::from_millis(3000)).await; "slow" }
    async fn sse() -> DataStream {
        DataStream::new(|mut s| async move {
            s.send("a"); tokio::time::sleep(Duration::from_millis(1500)).await;
            s.send("b"); tokio::time::sleep(Duration::from_millis(1500)).await;
            s.send("c");
        })
    }
    fn timed_app() -> Ohkami { Ohkami::new(("/".GET(root), "/slow".GET(slow), "/sse".GET(sse))) }
    /// plays `steps` = (pause before writing in ms, bytes) on a fresh connection; collects what the server writes until it has been quiet for `quiet` ms
    /// after the last step (or it closes); returns (bytes, closed by the server)
    async fn play(steps: Vec<(u64, &'static [u8])>, quiet: u64) -> (Vec<u8>, bool) {
        let listener = tokio::net::TcpListener::bind("127.0.0.1:0").await.expect("harness: bind");
        let addr = listener.local_addr().unwrap();
        let mut client = tokio::net::TcpStream::connect(addr).await.expect("harness: connect");
        client.set_nodelay(true).ok();
        let (server, _) = listener.accept().await.expect("harness: accept");
        server.set_nodelay(true).ok();
        let task = tokio::task::spawn_local(timed_app().__verif_session(server));
        let mut all: Vec<u8> = Vec::new();
        let mut buf = vec![0u8; 65536];
        let mut closed = false;
        let n = steps.len();
        'outer: for (i, (pause, bytes)) in steps.into_iter().enumerate() {
            // while pausing, keep reading (an answer may still be on its way)
            let until = tokio::time::Instant::now() + Duration::from_millis(pause);
            loop {
                match tokio::time::timeout_at(until, client.read(&mut buf)).await {
                    Ok(Ok(0)) | Ok(Err(_)) => { closed = true; break 'outer }
                    Ok(Ok(k)) => all.extend_from_slice(&buf[..k]),
                    Err(_) => break,
                }
            }
            if client.write_all(bytes).await.is_err() { closed = true; break }
            let _ = client.flush().await;
            if i + 1 == n {
                loop {
                    match tokio::time::timeout(Duration::from_millis(quiet), client.read(&mut buf)).await {
                        Ok(Ok(0)) | Ok(Err(_)) => { closed = true; break }
                        Ok(Ok(k)) => all.extend_from_slice(&buf[..k]),
                        Err(_) => break,
                    }
                }
            }
        }
        task.abort();
        (all, closed)
    }
    const GET: &[u8] = b"GET / HTTP/1.1\r\n\r\n";
    let rt = rt();
    let local = tokio::task::LocalSet::new();
    let out = local.block_on(&rt, async move {
        let (ka, slow, stream, idle) = tokio::join!(
            play(vec![(0, GET), (900, GET), (900, GET), (900, GET)], 400),
            play(vec![(0, b"GET /slow HTTP/1.1\r\n\r\n")], 4200),
            play(vec![(0, b"GET /sse HTTP/1.1\r\n\r\n")], 2600),
            play(vec![(0, GET)], 3200),
        );
        json!({"timed": {
            "keepalive": {"all": hex(&ka.0), "closed_by_server": ka.1},
            "slow": {"all": hex(&slow.0), "closed_by_server": slow.1},
            "stream": {"all": hex(&stream.0), "closed_by_server": stream.1},
            "idle": {"all": hex(&idle.0), "closed_by_server": idle.1},
        }})
    });
    println!("{}", out);
    std::process::exit(0)
}

pub fn run_case(c: &Value) -> Value {
    if c.get("timed").is_some() { return timed() }
    pin_clock(PINNED_CLOCK);
    let t = app();
    let script: Vec<Vec<u8>> = c["script"].as_array().unwrap().iter().map(|s| unhex(s.as_str().unwrap())).collect();
    let eof = c["eof"].as_bool().unwrap_or(true);
    let mut out = guarded(&t, script.clone(), eof);
    if out.get("panic").is_some() { return out }
    // C05: each request alone on a fresh connection
    if c["fresh"].as_bool() == Some(true) {
        out["fresh"] = Value::Array(script.iter().map(|r| guarded(&t, vec![r.clone()], true)).collect());
    }
    // the same script through the real session loop over loopback TCP (hook H6)
    if c["real"].as_bool() == Some(true) {
        out["real"] = match std::panic::catch_unwind(std::panic::AssertUnwindSafe(|| real_session(script.clone(), eof))) { Ok(v) => v, Err(e) => json!({"panic": panic_msg(e)}) };
    }
    // C06: the same byte stream in its canonical segmentation (one read per request, given by the case)
    if let Some(canon) = c.get("canon").and_then(Value::as_array) {
        out["canon"] = guarded(&t, canon.iter().map(|s| unhex(s.as_str().unwrap())).collect(), eof);
    }
    out
}
