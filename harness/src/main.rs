//! Executor of the correspondence checks: `verif_harness <property id>` reads one JSON case per line on stdin,
//! runs the REAL code of /repo on it and writes one JSON answer per line.  No oracle logic lives here.
#![allow(dead_code)]
use serde_json::{json, Value};
use std::io::BufRead;

#[macro_use] mod gen_tables;
mod util;
mod apps;
mod c01;
mod c02;
mod c03;
mod c05;
mod c07;
mod c08;
mod c09;
mod c10;
mod c11;
mod c12;
mod c13;
mod c14;
mod c17;
mod c18;
mod c19;
mod c15;
mod c16;
mod c20;

fn main() {
    std::panic::set_hook(Box::new(|_| {}));
    let prop = std::env::args().nth(1).unwrap_or_default();
    if prop == "C05timed" { c05::timed_child() }
    if prop == "C18howl" { c18::howl_child(&std::env::args().nth(2).unwrap_or_default()) }
    let f: fn(&Value) -> Value = match prop.as_str() {
        "C01" | "C04" => c01::run_case,
        "C02" => c02::run_case,
        "C03" => c03::run_case,
        "C05" | "C06" => c05::run_case,
        "C07" => c07::run_case,
        "C08" => c08::run_case,
        "C09" => c09::run_case,
        "C10" => c10::run_case,
        "C11" => c11::run_case,
        "C12" => c12::run_case,
        "C13" => c13::run_case,
        "C14" => c14::run_case,
        "C15" => c15::run_case,
        "C16" => c16::run_case,
        "C17" => c17::run_case,
        "C18" => c18::run_case,
        "C19" => c19::run_case,
        "C20" => c20::run_case,
        _ => { eprintln!("usage: verif_harness <property id>"); std::process::exit(2) }
    };
    // the applications of some checks are assembled by deeply nested generic code (a debug build spends a lot of stack there): run on a big stack
    std::thread::Builder::new().stack_size(1 << 30).spawn(move || serve(f)).unwrap().join().ok();
}

fn serve(f: fn(&Value) -> Value) {
    let stdin = std::io::stdin();
    let stdout = std::io::stdout();
    let mut out = std::io::BufWriter::new(stdout.lock());
    use std::io::Write;
    for line in stdin.lock().lines() {
        let line = line.unwrap();
        if line.trim().is_empty() { continue }
        let v: Value = serde_json::from_str(&line).unwrap();
        let o = match std::panic::catch_unwind(std::panic::AssertUnwindSafe(|| f(&v["case"]))) {
            Ok(o) => o,
            Err(e) => json!({"panic": util::panic_msg(e)}),
        };
        writeln!(out, "{}", json!({"id": v["id"], "out": o})).unwrap();
        out.flush().unwrap();      // one answer per line, flushed: a case that kills the process must be the first unanswered one
    }
}
