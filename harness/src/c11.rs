//! C11 (and C08) executor: `serde_cookie::from_str` into catalogue structs, `util::iter_cookies`, and `Set-Cookie` building + `SetCookie::from_raw`
//! (through the public `Response.headers.SetCookie()` iterator).
use crate::c09::Canon;
use crate::util::*;
use serde::Deserialize;
use serde_json::{json, Value as J};

#[derive(Deserialize)] struct J0 { a: String, tok: Option<String>, n: Option<u32> }
#[derive(Deserialize)] struct J1<'a> { s: &'a str, b: bool }
#[derive(Deserialize)] struct J2 { id: u64, #[serde(default)] d: u8, neg: Option<i16> }
#[derive(Deserialize)] struct J3 { x: String, y: String, z: String }
#[derive(Deserialize)] struct J5 { c: char, oc: Option<char>, s: String }
// cookie names over the RFC 6265 token alphabet that are not identifiers (serde rename)
#[derive(Deserialize)] struct J4 { #[serde(rename = "session-id")] sid: String, #[serde(rename = "__Host-tok")] tok: Option<String>, #[serde(rename = "a.b!#$*+^_`|~")] odd: Option<u32> }

fn de(tid: u64, input: &str) -> J {
    macro_rules! run { ($t:ty, |$v:ident| $canon:expr) => { match ohkami_lib::serde_cookie::from_str::<$t>(input) { Ok($v) => json!({"outcome": "ok", "value": $canon}), Err(_) => json!({"outcome": "err"}) } } }
    match tid {
        0 => run!(J0, |v| json!({"struct": [["a", v.a.canon()], ["tok", v.tok.canon()], ["n", v.n.canon()]]})),
        1 => run!(J1, |v| json!({"struct": [["s", v.s.canon()], ["b", v.b.canon()]]})),
        2 => run!(J2, |v| json!({"struct": [["id", v.id.canon()], ["d", v.d.canon()], ["neg", v.neg.canon()]]})),
        3 => run!(J3, |v| json!({"struct": [["x", v.x.canon()], ["y", v.y.canon()], ["z", v.z.canon()]]})),
        4 => run!(J4, |v| json!({"struct": [["session-id", v.sid.canon()], ["__Host-tok", v.tok.canon()], ["a.b!#$*+^_`|~", v.odd.canon()]]})),
        5 => run!(J5, |v| json!({"struct": [["c", v.c.canon()], ["oc", v.oc.canon()], ["s", v.s.canon()]]})),
        _ => json!({"outcome": "bad-tid"}),
    }
}

// ---- the same through a real request: the typed extractor `typed::header::Cookie<T>` in a handler's signature and `req.headers.Cookies()`
mod served {
    use super::*;
    use ohkami::prelude::*;
    use ohkami::typed::header::Cookie;
    use std::sync::Mutex;
    pub static SEEN: Mutex<Option<J>> = Mutex::new(None);
    macro_rules! schema { ($($t:ty),*) => {$( impl ohkami::openapi::Schema for $t { fn schema() -> impl Into<ohkami::openapi::schema::SchemaRef> { ohkami::openapi::object() } } )*} }
    schema!(J0, J1<'_>, J2, J3, J4, J5);
    fn saw(v: J) -> &'static str { *SEEN.lock().unwrap() = Some(v); "ran" }
    async fn h0(Cookie(v): Cookie<J0>) -> &'static str { saw(json!({"struct": [["a", v.a.canon()], ["tok", v.tok.canon()], ["n", v.n.canon()]]})) }
    async fn h1(Cookie(v): Cookie<J1<'_>>) -> &'static str { saw(json!({"struct": [["s", v.s.canon()], ["b", v.b.canon()]]})) }
    async fn h2(Cookie(v): Cookie<J2>) -> &'static str { saw(json!({"struct": [["id", v.id.canon()], ["d", v.d.canon()], ["neg", v.neg.canon()]]})) }
    async fn h3(Cookie(v): Cookie<J3>) -> &'static str { saw(json!({"struct": [["x", v.x.canon()], ["y", v.y.canon()], ["z", v.z.canon()]]})) }
    async fn h4(Cookie(v): Cookie<J4>) -> &'static str { saw(json!({"struct": [["session-id", v.sid.canon()], ["__Host-tok", v.tok.canon()], ["a.b!#$*+^_`|~", v.odd.canon()]]})) }
    async fn h5(Cookie(v): Cookie<J5>) -> &'static str { saw(json!({"struct": [["c", v.c.canon()], ["oc", v.oc.canon()], ["s", v.s.canon()]]})) }
    async fn it(req: &Request) -> &'static str { saw(json!(req.headers.Cookies().map(|(k, v)| json!([hex(k.as_bytes()), hex(v.as_bytes())])).collect::<Vec<_>>())) }
    /// GET `path` with `Cookie: input` through the real parser, router and extractor: {"ran", "status", "value"} or {"refused"} when the parser refuses the request
    pub fn get(path: &str, input: &[u8]) -> J {
        thread_local! { static APP: ohkami::testing::TestingOhkami = { use ohkami::testing::Testing; Ohkami::new(("/0".GET(h0), "/1".GET(h1), "/2".GET(h2), "/3".GET(h3), "/4".GET(h4), "/5".GET(h5), "/it".GET(it))).test() }; }
        *SEEN.lock().unwrap() = None;
        let w = APP.with(|t| crate::apps::wire(t, "GET", path.as_bytes(), &[(b"Cookie".to_vec(), input.to_vec())], b""));
        let status = match &w { Ok(w) if w.len() >= 12 => std::str::from_utf8(&w[9..12]).ok().and_then(|s| s.parse::<u16>().ok()).unwrap_or(0), _ => 0 };
        let seen = SEEN.lock().unwrap().take();
        if seen.is_none() && (status == 400 || status == 0) { return json!({"refused": status}) }       // the request parser refused the header line
        json!({"ran": seen.is_some(), "status": status, "value": seen})
    }
}

pub fn run_case(c: &J) -> J {
    match c["kind"].as_str().unwrap() {
        "struct" => {
            let input = unhex(c["input"].as_str().unwrap());
            let tid = c["tid"].as_u64().unwrap();
            match std::str::from_utf8(&input) {
                Ok(s) => { let mut o = de(tid, s); o["served"] = served::get(&format!("/{tid}"), &input); o }
                Err(_) => json!({"outcome": "not-utf8-input"}) }
        }
        "iter" => {
            let input = string(unhex(c["input"].as_str().unwrap()));
            json!({"pairs": ohkami::util::iter_cookies(&input).map(|(k, v)| json!([hex(k.as_bytes()), hex(v.as_bytes())])).collect::<Vec<_>>(), "served": served::get("/it", input.as_bytes())})
        }
        "setcookie" => {
            pin_clock(PINNED_CLOCK);
            let d = &c["dirs"];
            let (name, value) = (leak_str(unhex(c["name"].as_str().unwrap())), string(unhex(c["value"].as_str().unwrap())));
            let mut res = ohkami::Response::OK();
            res.headers.set().SetCookie(name, value, |mut b| {
                if let Some(x) = d["expires"].as_str() { b = b.Expires(string(unhex(x))) }
                if let Some(x) = d["max_age"].as_u64() { b = b.MaxAge(x) }
                if let Some(x) = d["domain"].as_str() { b = b.Domain(string(unhex(x))) }
                if let Some(x) = d["path"].as_str() { b = b.Path(string(unhex(x))) }
                if d["secure"].as_bool() == Some(true) { b = b.Secure() }
                if d["http_only"].as_bool() == Some(true) { b = b.HttpOnly() }
                match d["same_site"].as_str() { Some("Strict") => b = b.SameSiteStrict(), Some("Lax") => b = b.SameSiteLax(), Some("None") => b = b.SameSiteNone(), _ => () }
                b
            });
            let parsed: Vec<J> = res.headers.SetCookie().map(|sc| json!({
                "name": hex(sc.Cookie().0.as_bytes()), "value": hex(sc.Cookie().1.as_bytes()), "expires": sc.Expires().map(|s| hex(s.as_bytes())), "max_age": sc.MaxAge(),
                "domain": sc.Domain().map(|s| hex(s.as_bytes())), "path": sc.Path().map(|s| hex(s.as_bytes())), "secure": sc.Secure() == Some(true), "http_only": sc.HttpOnly() == Some(true),
                "same_site": sc.SameSite().map(|p| format!("{p:?}").trim_matches('"').to_string()) })).collect();
            res.__verif_complete();
            let mut wire = Vec::new();
            rt().block_on(async { res.__verif_send(&mut wire).await; });
            json!({"wire": hex(&wire), "parsed": parsed})
        }
        k => panic!("harness: kind {k}"),
    }
}
