//! C12 executor: an application whose only route is behind the real JWT fang; also `issue` of the same configuration
use crate::util::*;
use ohkami::prelude::*;
use ohkami::fang::{JWT, Context};
use ohkami::testing::*;
use serde::{Serialize, Deserialize};
use serde_json::{json, Value};
use std::sync::Mutex;

#[derive(Serialize, Deserialize, Clone, Debug)]
struct P { sub: String,
    #[serde(default, skip_serializing_if = "Option::is_none")] big: Option<u128>,          // a claim beyond 64 bits: `serde_json::Value` cannot hold it
    #[serde(default, skip_serializing_if = "Option::is_none")] exp: Option<Value>,
    #[serde(default, skip_serializing_if = "Option::is_none")] nbf: Option<Value>,
    #[serde(default, skip_serializing_if = "Option::is_none")] iat: Option<Value> }

static SEEN: Mutex<Option<String>> = Mutex::new(None);
async fn who(Context(p): Context<'_, P>) -> &'static str { *SEEN.lock().unwrap() = Some(serde_json::to_string(p).unwrap()); "in" }

fn fang(alg: &str, secret: String) -> JWT<P> {
    match alg { "HS256" => JWT::<P>::new_256(secret), "HS384" => JWT::<P>::new_384(secret), "HS512" => JWT::<P>::new_512(secret), o => panic!("harness: alg {o}") }
}

/// the configuration `getter: "x"`: the token is the value of `X-Api-Token` (`get_token_by`), and Authorization is not looked at
fn custom(j: JWT<P>) -> JWT<P> { j.get_token_by(|req| req.headers.get("X-Api-Token"), ohkami::openapi::security::SecurityScheme::Bearer("xApiToken", None)) }

pub fn run_case(c: &Value) -> Value {
    pin_clock(c["now"].as_u64().unwrap());
    let alg = c["alg"].as_str().unwrap();
    let secret = string(unhex(c["secret"].as_str().unwrap()));
    let x = c["getter"].as_str() == Some("x");
    let f = fang(alg, secret.clone());
    let t = Ohkami::new((if x { custom(f) } else { f }, "/".GET(who))).test();
    *SEEN.lock().unwrap() = None;
    let mut issued = None;
    let auth: Option<String> = if let Some(p) = c.get("issue").filter(|v| !v.is_null()) {
        // (`big` travels as decimal text in the case: the case itself is read through `Value`)
        let mut pj = p.clone();
        let big: Option<u128> = pj.as_object_mut().and_then(|o| o.remove("big")).and_then(|b| b.as_str().map(|s| s.parse().expect("harness: big")));
        let mut payload: P = serde_json::from_value(pj).expect("harness: issue payload");
        payload.big = big;
        let token: String = fang(alg, secret).issue(payload).into();
        issued = Some(token.clone());
        Some(format!("Bearer {token}"))
    } else { c["auth"].as_str().map(|a| string(unhex(a))) };
    let mut req = if c["method"].as_str() == Some("OPTIONS") { TestRequest::OPTIONS("/") } else { TestRequest::GET("/") };
    if x {
        // the same token text, where this configuration looks for it; `decoy`: a token the configuration itself issued, where it does not look
        if let Some(a) = auth { req = req.header("X-Api-Token", a.strip_prefix("Bearer ").expect("harness: getter x needs a Bearer value").to_string()) }
        if c["decoy"].as_bool() == Some(true) {
            let tok: String = fang(alg, string(unhex(c["secret"].as_str().unwrap()))).issue(P { sub: "decoy".into(), big: None, exp: None, nbf: None, iat: None }).into();
            req = req.header("Authorization", format!("Bearer {tok}"));
        }
    } else if let Some(a) = auth { req = req.header("Authorization", a) }
    let status = rt().block_on(async { t.oneshot(req).await.status().code() });
    let seen = SEEN.lock().unwrap().take();
    // `seen_text`: the payload the handler saw, as JSON text (a number beyond 64 bits does not survive a `Value`)
    json!({"ran": seen.is_some(), "status": status, "seen_text": seen, "issued": issued.map(|t| hex(t.as_bytes()))})
}
