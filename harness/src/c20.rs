//! C20 executor: the real `imf_fixdate`, `itoa`, `hexized`.
use crate::util::*;
use serde_json::{json, Value};

fn fnv(h: u64, bs: &[u8]) -> u64 { bs.iter().fold(h, |h, b| (h ^ (*b as u64)).wrapping_mul(1099511628211)) }

pub fn run_case(c: &Value) -> Value {
    if let Some(t) = c.get("t").and_then(Value::as_u64) {
        return json!({"s": hex(ohkami_lib::imf_fixdate(t).as_bytes())})
    }
    if let Some(n) = c.get("itoa").and_then(Value::as_str) {
        return json!({"s": hex(ohkami_lib::num::itoa(n.parse::<usize>().unwrap()).as_bytes())})
    }
    if let Some(n) = c.get("hex").and_then(Value::as_str) {
        return json!({"s": hex(ohkami_lib::num::hexized(n.parse::<usize>().unwrap()).as_bytes())})
    }
    let a = c["bulk_t"].as_array().unwrap();
    let g = |i: usize| a[i].as_u64().unwrap();
    let (mut h, mut d) = (14695981039346656037u64, g(0));
    while d < g(1) {
        h = fnv(h, ohkami_lib::imf_fixdate(d * 86400 + g(3)).as_bytes());
        d += g(2);
    }
    json!({"fnv": h.to_string()})
}
